"""Manifest metadata per property (MANIFEST.json is generated from this by tools/gen_manifest.py)."""

NA = {
}

PENDING = 'check not built yet in this revision (planned static rule set: DESIGN.md section 4)'

CHECKS = {
    'C14': dict(
        category='proof',
        text='Every exit of every function of every compiled unit is shown to return at its entry lock depth '
             '(lock/unlock primitives +1/-1) by a lock-depth typestate analysis over all CFG paths with '
             'call-graph summaries; this is the whole property, for every outcome class, because each outcome '
             'is a branch of the CFG.',
        note='Trusts: clang front end; Q_MUTEX_ENTER/LEAVE treated as atomic acquire/release (their expansion is only '
             'checked to call pthread_mutex_trylock/unlock); external callbacks depth-neutral; no longjmp; qdatabase.c is '
             'preprocessed away in every buildable configuration.',
        technique='static lock-depth typestate dataflow over per-function CFGs with interprocedural summaries (clang JSON AST)',
        design_ref='3-A, 4-C14',
    ),
    'C13': dict(
        category='other',
        text='Decides the lock-discipline clause of the property, not linearizability: for every insert/put, get, remove/pop, '
             'clear and toarray/tostring operation of the tree table, hash table, list table, list/queue/stack and vector, '
             'every access to mutable shared state (container fields, node fields, element buffer/slot array) executes at '
             'lock depth >= 1 on all CFG paths, and the operation enters its outermost critical section at most once. '
             'This is a necessary condition (an unlocked access is a data race / lost update under some schedule) and is '
             'exactly the failure mechanism the property cites.',
        note='Trusts the mutex macros; fields exempt from guarding are derived as written-only-by-constructor; the user cursor '
             'object of getnext/removeobj and nodes under construction (fresh allocation, flow-insensitive) are private; '
             'qtreetbl_getnext is documented caller-locked; one named exemption (qlisttbl_removeobj frees an unlinked node).',
        technique='static guarded-by / lockset analysis on top of the lock-depth dataflow (clang JSON AST, CFG, call-graph summaries)',
        design_ref='3-B, 4-C13',
    ),
    'C11': dict(
        category='other',
        text='Decides structural memory-safety clauses on all CFG paths of the 11 anchored units, not the absence of all UB over '
             'all histories: M1 no memcpy/strcpy/strncpy between possibly overlapping ranges of one object (else memmove); M2 every '
             'destruction site frees the node and all fields the code base treats as owned; M3 no use/double free of a freed path '
             'within a function; M4 allocation size = copy length; H2 counted hash scans test the count before dereferencing. '
             'Each is a necessary condition of the property (its violation is an overlap UB, leak, UAF, overflow or over-read '
             'for some history) and together they cover the defect classes the property names.',
        note='Access-path aliasing with one level of local alias resolution; callee effects via summaries; ownership derived from '
             'what the code frees; array-cursor bases and caller-owned cursor objects are not nodes; static hash table region '
             'bounds are decided under C07 (I4).',
        technique='static ownership/typestate dataflow (path-sensitive, per-function CFG + summaries) and symbolic affine overlap check over clang JSON AST',
        design_ref='3-C, 3-D, 4-C11',
    ),
    'C15': dict(
        category='other',
        text='Decides the fault-path discipline clauses, not state equality before/after a failed call: A1 every allocation result '
             'is NULL-tested before dereference / hand-over to a dereferencing callee / being left in a must-be-non-NULL node field; '
             'A2 no may-fail allocation after a counter increment within an operation; A3 every block allocated in a function is '
             'freed, returned, stored or handed over on every path (failure paths included) and p = realloc(p, n) is rejected; '
             'M2f destruction completeness on allocation-failure paths. Every allocation site of the nine container units is an '
             'obligation, so each fault position the property quantifies over is a CFG branch that is covered.',
        note='Path-sensitive value tracking with condition correlation; must-be-non-NULL fields are an explicit table; unknown '
             'external callees are assumed to take ownership; string utilities outside the container units are out of scope.',
        technique='static path-sensitive null-check / ownership dataflow over every allocation site (clang JSON AST, CFG, summaries)',
        design_ref='3-C, 4-C15',
    ),
    'C12': dict(
        category='other',
        text='Decides the aliasing clauses, not byte-for-byte equality: R1 no raw key/value pointer parameter of any public '
             'container function is ever stored into memory (72 parameter obligations, tracked through locals, offsets, casts, '
             'strchr-like derivations and callee summaries); R3 under newmem == true (26 accessors) and unconditionally for '
             'pop*/find_min/find_max/toarray/tostring/static-hash get* (22 accessors) every returned pointer and every cursor '
             'name/data store originates from a fresh allocation; R2 recorded size = allocated size = copied length. These are '
             'exactly the three failure modes the property names (kept caller pointer, internal pointer handed out, copy one '
             'byte short / wrong size).',
        note='Pointer provenance over reaching definitions with infeasible edges pruned under the flag assumption; libc callees '
             'do not retain arguments; qhasharr(memory) is the one named exemption; content equality of the copies is not decided.',
        technique='static pointer-provenance / escape analysis over reaching definitions with interprocedural summaries (clang JSON AST)',
        design_ref='3-E, 4-C12',
    ),
    'C16': dict(
        category='other',
        text='Decides the table/format clauses exhaustively (every one of the 848 table entries): URL literal set is URL-safe and '
             'excludes the reserved characters, Base64 alphabet is RFC 4648, reader tables invert writer tables with the skip '
             'marker elsewhere, hex is lowercase on output and both cases on input, \'=\' padding structure, output allocations '
             'cover the worst case, 256-entry tables are indexed by unsigned bytes, \'+\'->space and case-folding %hh. Round-trip '
             'equality for all byte strings (the decoders\' bit arithmetic) is a value computation and is NOT decided.',
        note='Tables are read from initialiser lists of the type-checked AST and located by role/length; output-size expressions '
             'are evaluated in the checker\'s integer domain for n = 1..600.',
        technique='static constant-table conformance and inversion check over AST initialiser lists, plus structural rules on the codec functions',
        design_ref='3-G, 4-C16',
    ),
    'C07': dict(
        category='other',
        text='Decides the structural clauses of relocatability and boundedness, not well-formedness of every reachable image: I1 '
             'the image record types are pointer-free (type fact, recursively through nested records); I2 no pointer-to-integer '
             'conversion and no pointer store into image fields, image fields touched in qhasharr.c only; I3 attach (memsize 0) '
             'writes nothing to the region; I4 every memcpy/memset into a slot array member and the uint8_t length field are '
             'bounded (upper-bound dataflow with compiler-evaluated sizeof, for the actual Q_HASHARR_* knob values); I5 header '
             'counters are written only by put_data/remove_data/clear/constructor; I6 every slot move is followed on all paths by '
             'the release of the source slot and the back-link repair.',
        note='Slot indexes taken from stored link/hash fields or from callers are assumed in range (image invariant / API contract) '
             'and listed, not proved; sizeof values come from the compiler.',
        technique='static type-shape check, who-may-access/write rules, upper-bound (clamp) dataflow and must-pass-through CFG rule over clang JSON AST',
        design_ref='3-D I4, 3-G, 4-C07',
    ),
    'C01': dict(
        category='other',
        text='Decides the code-shape clauses of the sorted-map property, not equality with an ideal map over histories: T1 node keys '
             'are touched only through tbl->compare (one orientation), qmemdup/free and moves - so string/binary keys and user '
             'orderings behave alike; T2 sign-domain dataflow: each of the 8 descent steps of put/remove/find/find_nearest takes '
             'left only where the comparator result can be negative, right only where positive, never for an equal key; T3 every '
             'rotation/fix-up/recursive result is written back to the link that supplied it and the public mutators store and '
             'blacken the root on every path; T4 the key count changes exactly with node creation/destruction on every path '
             '(replace branch writes no counter). Each is necessary: breaking it loses or misplaces keys for some history.',
        note='The user comparator is assumed to be a strict weak ordering; LLRB balance/colour invariants are C02 (n/a); the sign '
             'analysis cannot judge a descent after the comparator result was recomputed against a rotated node (remove_obj right part).',
        technique='static sign-domain dataflow over the comparator result, who-may-touch rule on key fields, link write-back and count-pairing typestate (clang JSON AST/CFG)',
        design_ref='3-T, 4-C01',
    ),
    'C04': dict(
        category='other',
        text='Decides the precondition of termination and history-independence named in the anchors, not floor semantics: T5 every '
             'loop climbing through the per-node parent link is preceded on all paths by a same-call reset of the root\'s parent '
             'link, and every descent step rewrites the child\'s parent link first - so the climb only follows links written by the '
             'current call; T2 the search descends left exactly for negative and right for positive comparator results. The '
             'sibling oracle is qtreetbl_getnext, whose first-call path resets through reset_iterator.',
        note='getnext\'s continuation branch (cursor already carries a parent link) is exempt by contract; the returned key\'s floor '
             'semantics and the continuation walk are runtime behaviour.',
        technique='static must-pass-through (dominance) rule on the CFG for parent-link climbs plus sign-domain descent check',
        design_ref='3-T, 4-C04',
    ),
    'C05': dict(
        category='other',
        text='Decides sibling-agreement and protocol clauses of the chained hash table, not map behaviour over histories: S1 put, '
             'get and remove derive the slot from the same closed expression and the walk resumes at stored-hash % range + 1; S2 '
             'the three lookups share one match predicate; S3 the predecessor-pointer unlink loop updates the predecessor on every '
             'path that continues and handles head and interior removal; T4 the key count moves only with node creation/destruction.',
        note='Thin by construction: which chain layouts arise and what a history returns are runtime facts.',
        technique='static sibling-agreement over expanded canonical expressions and a CFG cycle rule for the unlink loop',
        design_ref='4-C05',
    ),
    'C10': dict(
        category='other',
        text='Decides the index-discipline and configuration clauses, not array behaviour over histories: V1 element size, growth '
             'options and initial capacity are immutable after construction (who-may-write); IDX every one of the 10 element-address '
             'computations is reached only with 0 <= E and E < num (<= num for insertion) proven on all paths from dominating '
             'comparisons whose signed/unsigned domain is read from the type-checked AST (the int vs size_t comparison is exactly '
             'what rejects negative indexes) and from definition-based bounds of loop variables; VC the element count moves exactly '
             'once per insertion / successful removal shift on every path; M1 in-place shifts use overlap-safe copies.',
        note='Capacity (max >= num after growth) and the growth-policy arithmetic are not proved; functional results over histories '
             'are not decided.',
        technique='static must-fact (dominating comparison) dataflow with signedness from the type-checked AST, who-may-write rule, count typestate',
        design_ref='4-C10',
    ),
    'C18': dict(
        category='other',
        text='Decides agreement of the code with the published algorithms at the level of algorithm skeleton and parameters, plus '
             'the exact-bytes clause - not value equality for all inputs: each hash function is normalised from its AST into an '
             'ordered event list and compared (modulo variable renaming) with MurmurHash3 x86_32 / x64_128 (framing, body, tail '
             'byte law, mixes, finaliser, seed, result order), FNV-1 (offset basis, prime from the evaluated shift-add form, '
             'multiply-then-xor), and MD5 per RFC 1321 (initial state, all 64 steps incl. sine-derived constants, round functions '
             'by truth table); no branch depends on a data byte and counted scans test the count first; the containers use '
             'murmur3_32 / MD5 consistently. 150+ obligations, each a single published parameter or law instance.',
        note='MD5Update/MD5Final buffering, padding and length encoding are not modelled; C integer semantics are as the published '
             'algorithms assume; no hash value is ever computed by the check.',
        technique='static AST normalisation to an event list and structural comparison with reference parameter sets; taint-free-branch and count-guard rules',
        design_ref='3-H, 4-C18',
    ),
    'C20': dict(
        category='other',
        text='Decides four narrow structural clauses of the Apache-style parser, not the callback stream or the INI entry list as a '
             'function of the document: B1 the boolean classifier recognises all eight documented spellings case-insensitively and '
             'separates true / false / not-a-boolean; B2 the type check accepts exactly the two boolean outcomes and normalises to '
             '"1"/"0"; B3 every failure exit records a message with file and line or propagates a nested failure; B4 the returned '
             'count is incremented once per processed directive and nested counts are added.',
        note='Tokenising, quoting/escaping, section scoping, argument-count checks, @INCLUDE and ${} expansion are value/grammar '
             'behaviour and are not decided.',
        technique='static literal-set / return-value table extraction from the classifier CFG and structural rules on the parser loop',
        design_ref='3-G, 4-C20',
    ),
    'C08': dict(
        category='other',
        text='Decides structural clauses of the list table, not multimap behaviour over the 16 option combinations: L1 load returns '
             'a count incremented per added entry; L2 the sort exchanges only for a strictly positive comparison (stability) and '
             'exchanges every payload field; L3 save/load use the inverse codec pair under their flags with the same separator; L4 '
             'every behaviour option sets its own field and every field is read by the operation it governs; L5 direction choices map '
             'forward to first/next and backward to last/prev, insert-at-top links before first; T4/R2 count and payload/size pairing.',
        note='Behaviour over histories, duplicate-key positions and removal during a walk are runtime behaviour and not decided.',
        technique='static structural / sibling-agreement rules over the AST and CFG of qlisttbl.c',
        design_ref='4-C08',
    ),
    'C09': dict(
        category='other',
        text='Decides the end-agreement clause that makes queue/stack/grow FIFO/LIFO/concatenation, and accounting clauses of the list: '
             'E1 through the method table every queue insert variant uses one end and every remove/peek variant the opposite end, every '
             'stack variant the same end, every grow add appends and the flatteners walk first->next; E2 first/last wrappers are the '
             '0/-1 index forms; E3 the byte total changes by exactly the stored size with the count; E4 link-in only after the '
             'size-limit and range refusals; T4/R2 count and payload/size pairing. Sequence behaviour over histories and the index walk '
             'for every (n, index) are not decided.',
        note='The limit/range comparisons themselves (off-by-one) are not judged beyond their presence and dominance.',
        technique='static call-resolution through method tables with end classification, plus pairing/dominance rules on qlist.c',
        design_ref='4-C09',
    ),
    'C17': dict(
        category='other',
        text='Decides the memory-safety clause for the enumerated scan idioms and two structural termination clauses (LP1, LP2 below), not termination in general: CU1 abstract interpretation of every '
             'path of the 11 scan functions in the safe-window domain (bytes known to precede the terminator per cursor, read/write '
             'cursor distance, flag locals): no dereference at or beyond the terminator by look-ahead or multi-byte strides, no cursor '
             'moved past one-past-the-end, in-place decoders never write ahead of the reader or over the terminator (so they never '
             'produce more bytes than the input had); CU3 definite assignment of every scalar/pointer local in the parser units, goto '
             'edges included.',
        note='String parameters of the site table are assumed NUL-terminated; termination in general is '
             'not claimed (LP1 reports certain hangs only; LP2 demands a budget of rewrite-and-rescan loops, which is what bounds the '
             'mutually referential ${} variables and self-including files); count-bounded index loops, computed indexes and strlen-based tails are outside the '
             'domain and listed as not analysed.',
        technique='static abstract interpretation (safe-window cursor domain with flag partitioning) over per-function CFGs; definite-assignment dataflow',
        design_ref='3-F, 4-C17',
    ),
    'C19': dict(
        category='other',
        text='Decides only the bounded-write clause for the size-parameterised routines (qstrcpy, qstrncpy, qstrgets): every block '
             'copy / indexed store into the destination needs the must-fact len < size established by the clamp, delegation passes '
             '(dst, size) unchanged to a verified routine, cursor writes sit in a loop bounded by i < size - 1 with the cursor advancing '
             'no faster than i; plus overlap-safe copies in the in-place routines. What trim/replace/tokenizer/unquote compute and the '
             'output bound of qstrreplace are value computations and are not decided.',
        note='Narrow by design; size == 0 for qstrgets is outside the quantifier (sizes 1..n+2).',
        technique='static must-fact dataflow (comparison- and assignment-derived bounds) and a loop counting rule on the CFG',
        design_ref='3-D Q1, 4-C19',
    ),
}


# ---- wave-4 extensions (rules added after the C08/C09/C17/C18/C19/C20 seeding round) -----------------------------
CHECKS['C08'].update(
    text='Decides structural clauses of the list table, not multimap behaviour over the 16 option combinations: L1 load returns '
         'a count incremented per added entry; L2 the sort exchanges only for a strictly positive comparison (stability) and '
         'exchanges every payload field; L3 save/load use the inverse codec pair under their flags with the same separator; L4 '
         'every behaviour option sets its own field and every field is read by the operation it governs; L5 direction choices map '
         'forward to first/next and backward to last/prev, insert-at-top links before first; DL1 the unlink protocol of the doubly '
         'linked chain (on every path to the count decrement each side is tested, the end pointer is re-assigned where the entry is '
         'at that end and the neighbour is re-linked where it is not); L6 key equality only through the option-selected matcher '
         'slots (the stored case-sensitive hash is compared only inside the case-sensitive matcher); L8 the loader trims and splits '
         'text while it is still encoded; L9 no read of the insert-at-top option on the call paths from the loader to the linker '
         '(load always appends, so save + load keeps the order); T4/R2 count and payload/size pairing.',
    technique='static structural / sibling-agreement rules, a path-sensitive unlink-protocol typestate, who-may-read and '
              'call-graph reachability rules over the AST and CFG of qlisttbl.c')
CHECKS['C09'].update(
    text='Decides the end-agreement clause that makes queue/stack/grow FIFO/LIFO/concatenation, and accounting/range clauses of the '
         'list: E1 through the method table every queue insert variant uses one end and every remove/peek variant the opposite end, '
         'every stack variant the same end, every grow add appends and the flatteners walk first->next; E2 first/last wrappers are '
         'the 0/-1 index forms; E3 the byte total changes by exactly the stored size with the count, and the recorded size of a '
         'linked element is never changed behind it; E4 link-in only after the size-limit and range refusals; E5 the index-to-node '
         'lookup starts scanning only under the must-facts 0 <= index < num (signedness of each comparison taken from its operand '
         'types); DL1 unlink protocol of the doubly linked chain; T4/R2 count and payload/size pairing. Sequence behaviour over '
         'histories and which element the nearest-end walk reaches are not decided.',
    technique='static call-resolution through method tables with end classification; pairing/dominance rules, signedness-aware '
              'must-facts and a path-sensitive unlink-protocol typestate on qlist.c')
CHECKS['C17'].update(
    text=CHECKS['C17']['text'] + ' CU4 a cell argv[K] of the freshly allocated per-line record of the Apache-style tokenizer is read '
         'only after K+1 store-and-count steps on every path (exact saturating count, partitioned by the loop flags). BW1 every '
         'explicit-extent write (memcpy/strncpy/memset/snprintf/indexed store) into a local buffer of known capacity fits: capacity '
         'minus extent folds to a constant >= 0, or the variable part is bounded by a dominating comparison.',
    technique='static abstract interpretation (safe-window cursor domain with flag partitioning) over per-function CFGs; '
              'definite-assignment dataflow; counted-cell typestate; symbolic (polynomial) capacity/extent comparison with must-facts')
CHECKS['C18'].update(
    text='Decides agreement of the code with the published algorithms as value graphs, plus the exact-bytes clause - not the '
         'buffering of MD5Update or the file reader: each hash function is turned, by forward substitution over its AST with helper '
         'inlining, into hash-consed value graphs that are compared with graphs built from the published algorithm: MurmurHash3 '
         'x86_32 / x64_128 (block framing, loop body, and tail + finaliser for every length residue), FNV-1 32/64 (offset basis, '
         'per-byte step, result), the MD5 block transform of RFC 1321 (initial state, all 64 steps with sine-derived constants, '
         'round functions by truth table), and - in the table form the code has today - the MD5 padding arithmetic (H7: padding '
         'table, pad length for all 64 buffered-byte counts, bit count encoded first and appended last); no branch depends on a '
         'data byte and counted scans test the count first; the containers use murmur3_32 / MD5 consistently.',
    note='MD5Update buffering and the file-range reader of qhashmd5_file are not modelled; a padding routine in another form than '
         'today\'s gives no H7 instance (not decided, never an alarm); C integer semantics are as the published algorithms assume; no '
         'hash value is ever computed by the check.',
    technique='static value-graph construction by forward substitution (value numbering with residue-class constant propagation) '
              'and graph comparison with the published algorithms; constant folding of the pad-length expression over its 64-value '
              'domain; taint-free-branch and count-guard rules')
CHECKS['C19'].update(
    text='Decides the bounded-write clause for the size-parameterised routines and byte-set / byte-map clauses of trimming and case '
         'conversion: W1 every byte-steered loop of the trim routines continues exactly for {SP,TAB,CR,LF} (the loop condition is '
         'evaluated for all 256 byte values; <ctype.h>, strchr and repository helper predicates are modelled); W2 the per-byte '
         'effect of qstrupper/qstrlower equals the ASCII case map for all byte values; W3 a 256-entry table is indexed only by a '
         'value provably in 0..255; W4 s[len - k] is reached only under the must-fact len >= k; Q1 for qstrcpy/qstrncpy/qstrgets '
         'every block copy / indexed store into the destination needs the must-fact len < size established by the clamp, delegation '
         'passes (dst, size) unchanged to a verified routine, cursor writes sit in a loop bounded by i < size - 1; M1 overlap-safe '
         'copies in the in-place routines. What replace / tokenizer / line reader compute and the output bound of qstrreplace are '
         'value computations and are not decided.',
    technique='static must-fact dataflow (comparison- and assignment-derived bounds), a loop counting rule on the CFG, and exhaustive '
              'evaluation of byte predicates / byte maps over the 256 byte values')
CHECKS['C20'].update(
    text=CHECKS['C20']['text'] + ' B5 (INI parser) the ${...} scan over a value is abandoned only at the end of the text or with a '
         'restart requested, so an unresolved reference never hides the references to its right.')
CHECKS['C16'].update(
    text=CHECKS['C16']['text'] + ' Bit laws (TB10-TB14), decided by tabulating the pure arithmetic expressions of the codecs over their '
         'finite operand domains (staged bytes, table look-ups and the previous/current sextet become free variables; no codec is '
         'run): the four Base64 alphabet indexes are the four 6-bit fields of the 24-bit group; in state k the Base64 decoder emits '
         '((previous << 2k) | (current >> (6-2k))) & 0xff, steps k -> (k+1) mod 4 and carries the current sextet unconditionally; '
         'hex digits are (b >> 4, b & 15) and decode to 16*hi + lo; the URL escape digits are the hex digits of (c >> 4, c & 15) and '
         'the two-digit helper returns 16*hi + lo for all digit pairs in either case.',
    technique=CHECKS['C16']['technique'] + '; exhaustive tabulation of closed-form codec expressions over byte/sextet/nibble domains')


# ---- wave-5 extensions (second seeding round for C01 C11 C12 C13 C14 C15, refactor sets lists/parsers) -------------------
CHECKS['C05'].update(
    text=CHECKS['C05']['text'] + ' Added later: the match predicate of every lookup contains a string equality on the key (S2); S4 '
         'insert-at-head protocol (the new node receives the old head before the slot is overwritten on every path on which the old '
         'head can be non-NULL); S5 walk-cursor refresh (on every path that delivers an element through the caller\'s cursor, every '
         'cursor field the function reads to resume is re-assigned); S6 clear detaches every chain it frees.')
CHECKS['C11'].update(
    text=CHECKS['C11']['text'] + ' Added later: M3 also rejects reading through a raw caller pointer while an owned payload field is '
         'freed and not yet replaced (the caller\'s pointer may come from a non-copying get: copy first, release afterwards); I9 the '
         'static hash table\'s constructor writes the region only when memsize >= sizeof(header) is known (the slot count comes from an '
         'unsigned difference that wraps for smaller regions).')
CHECKS['C07'].update(
    text=CHECKS['C07']['text'] + ' I9: the constructor writes the region only under the must-fact memsize >= sizeof(header).')
CHECKS['C12'].update(
    text=CHECKS['C12']['text'] + ' R2-bin: binary payload fields (void *) are never duplicated with strdup/strndup (the copy would end '
         'at the first NUL while the stored size is reported).')
CHECKS['C13'].update(
    text=CHECKS['C13']['text'] + ' Added later, all under B-guard: element bytes are not read through a local copy of a shared payload '
         'pointer after the lock was released; the result of a non-copying accessor (copy flag passed as literal false) is not read '
         'by library code at lock depth 0. B-recursive: the mutex of every container that exposes lock()/unlock() is created '
         'recursive (the acquire macro force-releases a plain mutex held by the same thread).')
CHECKS['C14'].update(
    text=CHECKS['C14']['text'] + ' Static helpers whose lock effect is a function of their result (`returns the element with the lock '
         'held, or NULL with the lock released`) get return-value-correlated summaries: callers are analysed path-sensitively on how '
         'they branch on the result. A-recursive: containers that expose lock()/unlock() create a recursive mutex.')
CHECKS['C15'].update(
    text=CHECKS['C15']['text'] + ' A5: in the recursive restructuring functions of the tree no path from a recursive descent to a return '
         'bypasses a way-up fix-up condition (an early return on the failure status would leave nodes split on the way down '
         'unrepaired).')
CHECKS['C01'].update(
    text=CHECKS['C01']['text'] + ' T9: no return between a recursive descent and the way-up fix-ups.')


# ---- wave-6 extensions (second seeding round for C04 C05 C07 C10 C16) -------------------------------------------------------
CHECKS['C05'].update(text=CHECKS['C05']['text'] + ' S7: the walk recognises a cursor in use by a field that is non-zero after every '
                     'delivery (the name pointer) - a stored hash of 0 or a NULL next link must not make a used cursor look fresh.')
CHECKS['C10'].update(text=CHECKS['C10']['text'] + ' G2: element shifts move the tail by exactly one element (destination offset - '
                     'source offset = +objsize on insertion, -objsize on removal, as polynomials relative to the array start).')
CHECKS['C16'].update(text=CHECKS['C16']['text'] + ' TB7 is now the tabulated step law of the URL decoder (the loop body is interpreted '
                     'for every byte and four hex pairs: \'+\' -> space, %hh -> 16*hi+lo and not mapped again, other bytes unchanged, a '
                     'complete escape consumes 3 bytes). TB15: an encoder that shrinks its output keeps the terminator. TB16: the '
                     'in-place decoders return write cursor - buffer start, not a string function of the output.')
CHECKS['C04'].update(text=CHECKS['C04']['text'] + ' T7 also: only the walker and (re)initialisation advance the 8-bit traversal id - no '
                     'function that advances it is reachable from any other public operation. R2-src: a node payload is copied with '
                     'the size stored next to it in the same node.')
CHECKS['C12'].update(text=CHECKS['C12']['text'] + ' R2-src: qmemdup/memcpy of a node payload uses that node\'s own size field.')
CHECKS['C11'].update(text=CHECKS['C11']['text'] + ' M4 is applied in its capacity form here (allocation >= copied length; sizes the rule '
                     'cannot relate are listed as undecided) - the exact form belongs to C12.')
for _k in list(CHECKS):
    CHECKS[_k].setdefault('note', '')
THOROUGH_NOTE = ('The thorough tier analyses all three build configurations, runs the anchored self-test mutants, and replays the kept '
                 'corpus on scratch copies: every seeded change attributed to the check must be reported and every behaviour-preserving '
                 'refactoring must leave it silent (a miss or an alarm there makes the run analysis-broken).')


# ---- wave-7 extensions (third seeding round for C08 C09 C17 C19, refactor set cont2) -----------------------------------------
CHECKS['C08'].update(text=CHECKS['C08']['text'] + ' DL2: link-in protocol (mirror of DL1): at the count increment each side of the new '
                     'entry is closed - the end pointer is the entry where it has no neighbour, the neighbour\'s opposite link is the '
                     'entry where it has one (values tracked as (expression, version), list invariant first == NULL <=> last == NULL used '
                     'for pruning). GR1: growable result array of getmulti - the no-growth outcome of the capacity test leaves room for '
                     'the highest index written (the end marker).')
CHECKS['C09'].update(text=CHECKS['C09']['text'] + ' DL2 link-in protocol as for C08. E6: the size limit is written only by the constructor '
                     'and setsize; block fills starting at a field are followed through the record layout.')
CHECKS['C17'].update(text=CHECKS['C17']['text'] + ' M6: the pointer handed to free() is the allocation base (a local holding an allocation is '
                     'not advanced before it is freed). CU5: the word classifier whose acceptance lets the parser overwrite the word in '
                     'place compares whole words (no prefix match that accepts the empty word).')
CHECKS['C11'].update(text=CHECKS['C11']['text'] + ' M6 (free receives the allocation base) and GR1 (growable array protocol) as well.')
CHECKS['C19'].update(text=CHECKS['C19']['text'] + ' W5: the result of (v)snprintf is accepted as complete only when strictly below the size '
                     'passed in (qstrdupf / qstrcatf through the shared formatting macro).')
CHECKS['C20'].update(text=CHECKS['C20']['text'] + ' B1 also requires whole-word comparison in the boolean classifier.')


# ---- wave-8 extensions (seeding round for C12 C13 C15 C18 C20) -----------------------------------------------------------------
CHECKS['C15'].update(text=CHECKS['C15']['text'] + ' A7: an ENOMEM outcome is not overwritten by a later errno store on the same path. A8: in '
                     'a constructor the half-built object is not handed to a function that dispatches through a method field that has '
                     'not been assigned yet. M3 (no double free / use after free) is also run here.')
CHECKS['C20'].update(text=CHECKS['C20']['text'] + ' B6: a per-argument type flag computed by shifting QAC_A1_<T> stays within the per-argument '
                     'flags of that type (the argument index is bounded at the shift). B7: the line counter is reset on every path from the '
                     'parse entry to the line parser.')
CHECKS['C12'].update(text=CHECKS['C12']['text'] + ' W5: formatted values stored through putstrf/addstrf - the shared formatting macro accepts a '
                     '(v)snprintf result only when strictly below the buffer size.')
CHECKS['C18'].update(text=CHECKS['C18']['text'] + ' H8: the read loop of qhashmd5_file - MD5Update is given the byte count the read returned, that '
                     'count is used only where it is known to be >= 0, a read never exceeds the remaining count, the file is positioned at the '
                     'offset first (a reader in another I/O form gives no instance).')


# ---- wave-9 extensions (round for C16, refactor sets hashenc/tree2, fifth round for C01 C07 C11 C14) -----------------------------
CHECKS['C16'].update(text=CHECKS['C16']['text'] + ' TB1 second clause: every copy-through of the input byte in the URL encoder sits in the arm '
                     'selected by the pass-through table (no second arm copies a must-encode byte). TB17: the codecs keep no mutable '
                     'static state (tables are const or only written before first use under a constant guard). TB18: every pair split '
                     'off the query is handed to the table\'s put (no path from the split back to the loop head or out that skips it).')
_F1 = (' F1: the retry loop around vsnprintf (shared formatting macro behind %s) keeps the buffer only on paths that established '
       'result < size strictly - a path search over the expanded macro, any spelling of the test.')
CHECKS['C01'].update(text=CHECKS['C01']['text'] + _F1 % 'putstrf' + ' T1/T2 also see comparator calls made through a thin static wrapper of '
                     'tbl->compare; T3 resolves a single-assignment local that holds the link passed to a rotation.')
CHECKS['C05'].update(text=CHECKS['C05']['text'] + _F1 % 'putstrf')
CHECKS['C08'].update(text=CHECKS['C08']['text'] + _F1 % 'putstrf' + ' DL3: a chain pointer parked in the link fields of a not-yet-linked entry '
                     'is not separated from the link-in call by a call that may free entries (the unique-key removal comes first).')
CHECKS['C09'].update(text=CHECKS['C09']['text'] + _F1 % 'qgrow addstrf')
CHECKS['C19'].update(text=CHECKS['C19']['text'] + _F1 % 'qstrdupf/qstrcatf')
CHECKS['C04'].update(text=CHECKS['C04']['text'] + ' T5/T5c are interprocedural for static helpers: a climb or parent-link store inside a helper is '
                     'discharged at every call site of the helper (reset on every path to the call); a local holding the caller\'s '
                     'cursor link counts as the continuation test.')
CHECKS['C07'].update(text=CHECKS['C07']['text'] + ' I10: writer/reader agreement on the key digest - for every key size at which the lookup '
                     'compares the stored digest, the writer filled the digest buffer with qhashmd5 before storing it (decided per key '
                     'size at the constants both functions compare the size with). I11: every release of an entry (remove_data) lies on '
                     'paths that adjust a chain counter, unless the entry is a sole leading entry (count == 1) or the writer rolls back '
                     'the entry it created itself. I12: a slot-array subscript by an index that was advanced or computed upward since '
                     'its last comparison with maxslots is refused (the first slot after `idx + 1` included). I4 follows static helpers '
                     'that clamp and return the copied amount; I7 moves to the call sites of such a helper.')
CHECKS['C11'].update(text=CHECKS['C11']['text'] + ' I12 (ring-walk index compared with maxslots before it subscripts the slot array) and DL3 '
                     '(insert position sampled after the last call that may free entries) as well.')
CHECKS['C14'].update(text=CHECKS['C14']['text'] + ' A-macro-path recognises a typed local that holds the mutex operand.')
CHECKS['C17'].update(text=CHECKS['C17']['text'] + ' Termination clauses: LP1 no stationary cycle - every cycle through a loop head of the '
                     'parser units passes a write to something a condition of the loop reads, or an impure call (path conditions '
                     'tracked; a report is a certain hang, silence is not a termination proof). LP2 a loop that replaces the buffer it '
                     'scans by a text computed from that buffer and scans again (${} expansion, @INCLUDE processing) is bounded by '
                     'construction: every cycle through the rewrite updates an integer budget monotonically and a test of the budget '
                     'has an edge from which the rewrite is unreachable.')


# ---- wave-10 extensions (round for C04 C05 C09 C10) ---------------------------------------------------------------------------------
CHECKS['C04'].update(text=CHECKS['C04']['text'] + ' T10: a node is stamped with the traversal id only on paths that deliver it - no failing return '
                     '(the allocation-failure exit of the copying mode) is reachable from the stamp.')
CHECKS['C05'].update(text=CHECKS['C05']['text'] + ' T8 (from the tree table) also over qhashtbl.c, which accepts empty values: a NULL result of '
                     'qmemdup() leads to the ENOMEM exit only together with a test of the source size.')
CHECKS['C09'].update(text=CHECKS['C09']['text'] + ' E7: in the chain-walking flatteners (toarray / tostring, behind qgrow too) every copy out of an '
                     'element takes the element\'s recorded size or that size - 1 (all reaching definitions of the length, as polynomials) '
                     'and the output cursor advances by the copied length - a length taken from the content (strlen/strnlen) is refused. '
                     'E8: a node-pointer field of the container that a non-re-linking function assigns (a remembered lookup position) must '
                     'be reset or re-established after every write to a chain link or end pointer on every path (three-state forward '
                     'analysis: valid / stale / invalid; no instance while the record has no such field).')
CHECKS['C19'].update(text=CHECKS['C19']['text'] + ' Q2: every path from the entry of a size-parameterised routine to a return that is not an '
                     'argument-validation exit (a parameter, or what it points to, found NULL/zero) or a NULL-returning failure exit passes a '
                     'terminator store into the destination or a delegation of (dst, size) to another routine of the family.')
CHECKS['C17'].update(text=CHECKS['C17']['text'] + ' LP3: inside a rewrite-and-rescan loop a cursor into the new text is its start or a search result; '
                     'new text + a variable offset is refused unless the offset is compared with the new text\'s length.')


# ---- C06 claimed from wave 10 on (thin partial claim; it was n/a before) ---------------------------------------------------------
CHECKS['C06'] = dict(
    category='other',
    text='Decides the accounting, roll-back and key-matching clauses only - not the map behaviour over histories, the out-of-space '
         'boundary or the three-way placement, which depend on the runtime occupancy pattern. K1 occupation accounting: every '
         'chunk-loop iteration of the writer that copies payload into a slot passes exactly one usedslots++ (path counting), num++ only '
         'on the leading-slot arm and at most once per iteration. K2 release accounting: in the releaser each remove_slot() is followed '
         'by exactly one usedslots-- before the next release/exit; num-- exactly once on every path. K3 roll-back: after the writer '
         'stored the entry\'s count through its index parameter no failing return is reachable without remove_data() on that index. K4 '
         'match predicate: the lookup reports a slot only on paths on which the length test, the stored-key memcmp and - unless the key '
         'is known to fit the slot - the digest memcmp succeeded. I10 the digest is consulted only for key sizes for which the writer '
         'computed it. I11 every release of an entry goes with the chain-counter bookkeeping. Each is a necessary condition of "exact '
         'map with exact space accounting": breaking it makes the counters drift, leaves a half-written key, or confuses two keys.',
    note='Thin by design: which branch of the placement runs, whether a value fits and which keys collide are runtime facts; the '
         'slot-index range assumption of C07 applies.',
    technique='static path-counting and must-pass-through rules on per-function CFGs (clang JSON AST), fact-set path search for the match predicate',
    design_ref='4-C06',
)


# ---- wave-11 extensions (round for C08 C17 C19 C20, refactor set cfg2, C06 claimed) ------------------------------------------------------
CHECKS['C17'].update(text=CHECKS['C17']['text'] + ' LP4: a recursive descent of the parser units is bounded - every path to the recursive call '
                     'passes an ordering test of a per-level quantity against a constant limit, one edge of which cannot (feasibly, flag '
                     'locals evaluated) reach the call. W3 (byte-table indexes within 0..255) is also run over the decoder units, through '
                     'static helpers: every actual argument of an index parameter must be a byte value. BW1 imports bounds from a validating '
                     'helper (non-NULL result => the helper\'s must-facts about its parameter at its non-NULL returns); LP2 accepts a budget '
                     'kept by a helper (`charge(&budget, ..)` updating *param monotonically and comparing it with a constant).')
CHECKS['C19'].update(text=CHECKS['C19']['text'] + ' Q3: in the overlap-tolerant copy routines no store into the destination precedes the memmove '
                     'that reads the source. W6: a loop that overwrites L bytes at its scan cursor continues at cursor + L (polynomial '
                     'equality), not inside the bytes it wrote. W3 also judges smaller tables indexed by a value computed from a byte '
                     '(bitmaps `map[c >> 3]`): the interval of the index, from plain char [-128,127] / unsigned char [0,255] through >>, &, +, '
                     'must lie inside the table. Q1 understands a clamp through a min() helper and a counted-down room variable.')
CHECKS['C20'].update(text=CHECKS['C20']['text'] + ' B8: the number classifier behind the INT/FLOAT check (found by role: static, one string '
                     'parameter, returns 0/1/2) does not decide through strtol/strtod/atoi/atof/sscanf, whose language is wider than the '
                     'documented one. B9: the raw value is trimmed on every path before the ${} expansion and the expansion result reaches '
                     'the table\'s put without passing through another call.')
CHECKS['C09'].update(text=CHECKS['C09']['text'] + ' E7 follows a static copy-out helper (memcpy of its parameters, returns destination + length) '
                     'and accepts `size - (comparison)` as the string-element length.')
CHECKS['C12'].update(text=CHECKS['C12']['text'] + ' R3 treats a static helper that returns a fresh copy as fresh for cursor fields too.')


# ---- C02 claimed from wave 11 on (thin partial claim; it was n/a before) ---------------------------------------------------------
CHECKS['C02'] = dict(
    category='other',
    text='Decides structural necessary conditions of "stays a valid left-leaning red-black tree", not validity over reachable trees. ROT: '
         'rotate_left, rotate_right and flip_color - evaluated symbolically as heap transformations over distinct symbolic nodes h, '
         'h.left, h.right, ... with static helpers inlined and `if`s forked - are exactly the published transformations on every path: '
         'h.right := x.left, x.left := h, x.red := old h.red, h.red := true, return x (and the mirror image); the three colours negated, '
         'return h; no other node field written. T3: every rotation / fix-up / recursive result is stored back into the link that '
         'supplied the argument. T3-root: the public mutators store the returned root and blacken it on every path. T9: no return '
         'between a recursive descent and the way-up repairs. Breaking any of them breaks search order, colour or black height for some '
         'history.',
    note='Which repairs are applied in which order (this library\'s 2-3-4 variant differs from the textbook) and the invariants over all '
         'reachable shapes (red-red, black height, left-leaning) are NOT decided; a primitive that is no longer loop-free gives exit 2.',
    technique='static symbolic normal-form comparison of straight-line heap transformations (translation-validation style) plus CFG pairing / must-pass rules over clang JSON AST',
    design_ref='4-C02',
)


# ---- C03 claimed from wave 11 on (thin partial claim; it was n/a before) ---------------------------------------------------------
CHECKS['C03'] = dict(
    category='other',
    text='Decides protocol clauses of the stackless walk, not "every key exactly once in ascending order" over histories. T11: the function '
         'that advances a traversal id narrower than 32 bits tests the id against 0 after the increment and, on the wrap, every path '
         'passes a call of a function that assigns 0 to the node mark and recurses into both subtrees (so marks left by walks 2^width '
         'starts ago, by abandoned walks, and the zero mark of new nodes never equal a live id). T7: every end-of-walk exit of the '
         'walker advances the id; no other public operation reaches a function that advances it. T10: a node is stamped only on paths '
         'that deliver it. T5/T5c: every climb through parent links and every descent that records them is preceded on all paths by the '
         'reset of the root\'s parent link. Each is necessary: breaking it makes some walk skip or repeat keys for some history.',
    note='The visiting order of the walker loop (left subtree, node, right subtree) and the result over histories are NOT decided. T11 '
         'reported the 8-bit wrap on the pinned tree (a key inserted before the 256th walk start was skipped); repaired, see known_findings.',
    technique='static must-pass-through / reachability rules over per-function CFGs and the unit call graph (clang JSON AST), type-width fact for the epoch field',
    design_ref='4-C03',
)


# ---- wave-12 extensions -------------------------------------------------------------------------------------------------------
CHECKS['C15'].update(text=CHECKS['C15']['text'] + ' A9: a zero-initialised, half-built object is handed to a clean-up routine only while, for '
                     'every pointer field the routine (or a callee it hands the object to) dereferences and that is still NULL, at least '
                     'one of the fields whose non-zero value the dereference needs is still zero. F1 (formatting retry loop keeps the '
                     'buffer only with result < size; a failed realloc keeps the old block) over the container units.')
CHECKS['C18'].update(text=CHECKS['C18']['text'] + ' A condition that tests the ADDRESS of the input (pointer cast to an integer type: an '
                     'alignment split) is an opaque choice: the whole comparison is repeated for both outcomes and each must be the '
                     'published function. H9: the hash unit keeps no mutable static state (no write to a non-const static, directly or '
                     'by handing it to a callee as a writable buffer).')
CHECKS['C07'].update(text=CHECKS['C07']['text'] + ' I12 second clause: the stop value of a ring walk with a wrapped cursor is not a parameter that '
                     'a caller passes index + 1 for without normalisation (it may equal maxslots and is then never met).')
CHECKS['C06'].update(text=CHECKS['C06']['text'] + ' I12 (ring-walk index and stop value in range) as under C07.')
_DIM = (' DIM1 (units of measure): a value that counts W-byte elements (a byte size divided by W > 1, propagated through copies, +/- with '
        'counts or constants, min/conditional selections and loop bookkeeping) is not added to a byte pointer or passed as a byte length '
        'without being multiplied back by W.')
for _k in ('C10', 'C11', 'C17', 'C18'):
    CHECKS[_k].update(text=CHECKS[_k]['text'] + _DIM)


# ---- wave-13 extensions -------------------------------------------------------------------------------------------------------
_VA = (' VA1: a va_list is consumed (v*printf family) at most once per va_start - forward typestate fresh/used over the expanded '
       'formatting macro; the retry of the formatting loop must re-start the list.')
for _k in ('C01', 'C05', 'C08', 'C09', 'C12', 'C15', 'C19'):
    CHECKS[_k].update(text=CHECKS[_k]['text'] + _VA)
CHECKS['C12'].update(text=CHECKS['C12']['text'] + ' T8 (a NULL copy of an empty value is not an allocation failure) over the tree table and the '
                     'hash table.')
CHECKS['C13'].update(text=CHECKS['C13']['text'] + ' B-single is reported at the public operation also when the second critical section is '
                     'entered inside a static worker it calls.')
CHECKS['C03'].update(text=CHECKS['C03']['text'] + ' The purging function must clear the mark and recurse into both subtrees on every path '
                     'except the NULL-pointer exit (no "already unmarked, skip the subtree" short-cut).')
CHECKS['C18'].update(text=CHECKS['C18']['text'] + ' WID1: a left shift or multiplication of a non-constant 32-bit value is not converted to a '
                     '64-bit type only afterwards (MD5 bit counter, hash accumulators) unless the operand provably fits.')


# ---- wave-14 extensions -------------------------------------------------------------------------------------------------------
CHECKS['C01'].update(text=CHECKS['C01']['text'] + ' T13: a remembered node (a node-pointer field of the table other than the root, assigned by a '
                     'function that neither frees nodes nor moves keys) is reset or re-established after every event that frees a node or '
                     'moves a key between nodes, unless the freed node is known to be a different one; static workers are summarised '
                     '(can return stale / cannot) by an optimistic fixpoint and the verdict is given at the public operation. No instance '
                     'while the record has no such field.')
CHECKS['C16'].update(text=CHECKS['C16']['text'] + ' TB19: the query parser trims and splits text while it is still encoded (nothing URL-decoded is '
                     'handed to a routine that interprets blanks). The loop-free interpreter behind the tabulated laws models conversions '
                     'to char-sized types (sign of plain char) and the <ctype.h> classification table.')
CHECKS['C20'].update(text=CHECKS['C20']['text'] + ' B10: every iteration of the word-splitting loop of the Apache-style parser passes the store '
                     'argv[argc] = word (no cycle through the loop head avoids it).')


# ---- wave-15 extensions -------------------------------------------------------------------------------------------------------
CHECKS['C04'].update(text=CHECKS['C04']['text'] + ' T11 (wrap of the traversal id handled, and no function but the constructor assigns the '
                     'reserved id 0 to the table). WID2: a shift-register accumulation v = (v << k) | x in a loop is flushed inside the loop '
                     'or the loop is bounded by width/k iterations (rotations are not accumulations).')
CHECKS['C03'].update(text=CHECKS['C03']['text'] + ' No function but the constructor assigns 0 - the mark of unvisited nodes - to the table\'s '
                     'traversal id.')
CHECKS['C05'].update(text=CHECKS['C05']['text'] + ' S8: a remembered node of the hash table (a node-pointer field assigned by a lookup) is reset '
                     'after every event that frees nodes - the tree table\'s T13 over qhashtbl.c; destroying the table itself is exempt.')
CHECKS['C11'].update(text=CHECKS['C11']['text'] + ' WID2 (shift registers in loops) over the container units.')
CHECKS['C16'].update(text=CHECKS['C16']['text'] + ' PF1: the argument of a %x/%X/%o/%u conversion in the codec units is not a plain or signed '
                     'char (format string parsed, arguments matched to conversions).')
CHECKS['C18'].update(text=CHECKS['C18']['text'] + ' The block-loop framing also understands a counted-down block counter with walking block '
                     'pointers, a top-level alignment split holding one loop per arm, and memcpy(&word, p, sizeof word) as a load.')
CHECKS['C02'].update(text=CHECKS['C02']['text'] + ' The symbolic heap also models pointers to link fields (&obj->right, *link = ...) and '
                     'conditionals on constant flags, so one generic rotate(obj, toleft) with child-link accessors is compared as well.')
CHECKS['C13'].update(text=CHECKS['C13']['text'] + ' Fields written by static helpers that only constructors call count as written by the constructor.')


# ---- wave-16 extensions -------------------------------------------------------------------------------------------------------
CHECKS['C19'].update(text=CHECKS['C19']['text'] + ' Q4: an in-place string routine that returns NULL has not stored into its string argument '
                     'on that path.')
CHECKS['C18'].update(text=CHECKS['C18']['text'] + ' H10: inside a loop the data pointer handed to MD5Update depends on something the loop changes, '
                     'or is a local buffer a reader refills in the loop.')
CHECKS['C20'].update(text=CHECKS['C20']['text'] + ' B11: the configuration parsers keep no mutable static state (no write to a non-const static, '
                     'directly or by handing it to a callee as a writable buffer).')
CHECKS['C06'].update(text=CHECKS['C06']['text'] + ' WID3: a size value (uint16_t / size_t expression over a ...size quantity) is not stored into '
                     'a local or returned through a narrower integer type unless clamped or masked first.')


# ---- wave-17 extensions -------------------------------------------------------------------------------------------------------
CHECKS['C15'].update(text=CHECKS['C15']['text'] + ' GR2: a sentinel-terminated result array (getmulti) is closed - sentinel written behind the last '
                     'stored element - on every path on which it is handed to a scanning consumer (freemulti) or returned.')
CHECKS['C11'].update(text=CHECKS['C11']['text'] + ' GR2 (sentinel-terminated result arrays closed before they are scanned) as under C15.')
CHECKS['C17'].update(text=CHECKS['C17']['text'] + ' CU4 treats a loop flag handed to a helper by address as unknown after that call (it is still known '
                     'at the loop entry).')
CHECKS['C19'].update(text=CHECKS['C19']['text'] + ' W1 evaluates index-form scans (str[i] through a helper predicate) like cursor-form scans.')

# ---- wave-18 extensions -------------------------------------------------------------------------------------------------------
CHECKS['C01'].update(text=CHECKS['C01']['text'] + ' T6\'s decision table is evaluated with C integer semantics (arithmetic and integral conversions '
                     'reduced to the width and signedness of their type, so an unsigned length difference wraps). GS1: qtreetbl.c writes no '
                     'file-scope or function-static variable that it also reads - results depend on the table passed in only (the write-only '
                     'rotation counters are accepted and listed).')
CHECKS['C05'].update(text=CHECKS['C05']['text'] + ' M5: a value buffer is never resized with realloc(p, 0) read as failure (the empty value is a legal '
                     'value). GS1: no read-and-written static state in qhashtbl.c.')
CHECKS['C13'].update(text=CHECKS['C13']['text'] + ' GS1: none of the nine container units reads and writes a file-scope or function-static variable: such '
                     'state is shared by all containers and threads and no container lock protects it.')
CHECKS['C11'].update(text=CHECKS['C11']['text'] + ' M2 follows a local loaded from an owned field (directly or as an arm of ?:): free(local) releases '
                     'that field, so an exit that leaves the node linked with the field dangling is reported.')
for _p in ('C07', 'C08', 'C09', 'C10'):
    CHECKS[_p].update(text=CHECKS[_p]['text'] + ' GS1: the unit(s) keep no read-and-written file-scope or function-static state (all state lives in the '
                      'container object / the user-supplied region).')
CHECKS['C04'].update(text=CHECKS['C04']['text'] + ' T14: the functions that record or climb parent links seed node positions from the root field only (no '
                     'position loaded from a remembered-node field: its parent links were not written in this call). T15: whatever holds the '
                     'comparator result (directly or by copy, and a wrapper\'s return type) is a signed integer at least as wide as int.')
CHECKS['C01'].update(text=CHECKS['C01']['text'] + ' T15 (comparator result held at full width) as under C04.')
CHECKS['C16'].update(text=CHECKS['C16']['text'] + ' TB14 also evaluates digit tables initialised from string literals, reads the escaped byte with the '
                     'signedness of the expression that holds it (plain char is signed) and treats an index outside the table as a violation.')
CHECKS['C17'].update(text=CHECKS['C17']['text'] + ' NC1: a pointer parameter that a parser function compares with NULL somewhere is dereferenced only on '
                     'paths that passed the non-NULL outcome of such a test (per-path branch facts plus equality facts on discriminator fields '
                     'such as cbdata->otype, killed by assignments and by callees that may write them).')
CHECKS['C11'].update(text=CHECKS['C11']['text'] + ' NC1 (NULL-tested pointer parameters dereferenced only behind the test) over the container units, as under C17.')
CHECKS['C19'].update(text=CHECKS['C19']['text'] + ' Q5: the string functions of qstring.c write no static variable (results depend on the arguments only).')
CHECKS['C20'].update(text=CHECKS['C20']['text'] + ' WID3 over qaconf.c/qconfig.c: a count-like quantity (argc, num, len, size) is not stored into an 8/16-bit '
                     'local or returned through one unless clamped or masked.')
CHECKS['C02'].update(text=CHECKS['C02']['text'] + ' T6 additionally requires that key bytes the default comparator orders itself are not compared through '
                     'plain (signed) char; a comparator the evaluator cannot tabulate gives no verdict (exit 2).')
