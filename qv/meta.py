"""Manifest metadata per property (MANIFEST.json is generated from this by tools/gen_manifest.py)."""

NA = {
    'C02': 'colour/balance/search-order invariants are predicates over reachable heap shapes after arbitrary '
           'histories; no sound static argument in reach bounds them (shape enumeration / symbolic execution is a '
           'different technique family). The shape-visible clause (root written back and blackened) is decided under C01/C15.',
    'C03': 'correctness depends on the runtime value of an 8-bit traversal-epoch counter against per-node stamps left by '
           'earlier walks; any static rule (counter width, purge-on-wrap) would reject correct redesigns or accept '
           'incorrect ones.',
    'C06': 'which placement branch runs, whether a value fits and what a rollback restores depend on the runtime slot '
           'occupancy pattern; no structural clause of the map/fit-boundary behaviour is visible in code shape (the '
           'counter-accounting clause is decided under C07).',
}

PENDING = 'check not built yet in this revision (planned static rule set: DESIGN.md section 4)'

CHECKS = {
    'C14': dict(
        category='proof',
        text='Every exit of every function of every compiled unit is shown to return at its entry lock depth '
             '(lock/unlock primitives +1/-1) by a lock-depth typestate analysis over all CFG paths with '
             'call-graph summaries; this is the whole property, for every outcome class, because each outcome '
             'is a branch of the CFG.',
        note='Trusts: clang front end; Q_MUTEX_ENTER/LEAVE treated as atomic acquire/release (their expansion is only '
             'checked to call pthread_mutex_trylock/unlock); external callbacks depth-neutral; no longjmp; qdatabase.c is '
             'preprocessed away in every buildable configuration.',
        technique='static lock-depth typestate dataflow over per-function CFGs with interprocedural summaries (clang JSON AST)',
        design_ref='3-A, 4-C14',
    ),
    'C13': dict(
        category='other',
        text='Decides the lock-discipline clause of the property, not linearizability: for every insert/put, get, remove/pop, '
             'clear and toarray/tostring operation of the tree table, hash table, list table, list/queue/stack and vector, '
             'every access to mutable shared state (container fields, node fields, element buffer/slot array) executes at '
             'lock depth >= 1 on all CFG paths, and the operation enters its outermost critical section at most once. '
             'This is a necessary condition (an unlocked access is a data race / lost update under some schedule) and is '
             'exactly the failure mechanism the property cites.',
        note='Trusts the mutex macros; fields exempt from guarding are derived as written-only-by-constructor; the user cursor '
             'object of getnext/removeobj and nodes under construction (fresh allocation, flow-insensitive) are private; '
             'qtreetbl_getnext is documented caller-locked; one named exemption (qlisttbl_removeobj frees an unlinked node).',
        technique='static guarded-by / lockset analysis on top of the lock-depth dataflow (clang JSON AST, CFG, call-graph summaries)',
        design_ref='3-B, 4-C13',
    ),
}
