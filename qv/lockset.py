"""Engine B: guarded-by discipline (structural clause of C13)."""
import collections
import re
from .frontend import walk, children, strip, Ext, qtype
from .expr import canon, root_var, var_init
from .lock import LockAnalysis, lockable_records

ALLOCATORS = {'malloc', 'calloc', 'realloc', 'strdup', 'strndup', 'qmemdup', 'qstrdupf'}

TYPE_PREFIXES = ('qtreetbl_', 'qhashtbl_', 'qlisttbl_', 'qlist_', 'qvector_', 'qqueue_', 'qstack_', 'qgrow_')

# Functions exempt from the guarded-by obligation, one reason each.
EXEMPT = {
    'size': 'single-word read of a counter; not in C13\'s operation list',
    'datasize': 'single-word read of a counter; not in C13\'s operation list',
    'free': 'destructor: the caller must be the only user',
    'debug': 'diagnostic dump',
    'lock': 'lock primitive', 'unlock': 'lock primitive',
    'set_compare': 'configuration call, documented to be made before use',
    'check': 'diagnostic shape checker',
}
# Accesses exempt inside otherwise-checked functions: (function, root variable) -> reason.
EXEMPT_ACCESS = {
    ('qlisttbl_removeobj', 'this'): 'node was unlinked inside the critical section; it is unreachable from the container when it is freed',
}
# Caller-locked walks (documented: the caller holds the lock around the whole walk).
CALLER_LOCKED = {'qtreetbl_getnext': 'documented: caller wraps the walk in lock()/unlock()',
                 'qtreetbl_find_nearest': None}
del CALLER_LOCKED['qtreetbl_find_nearest']


def op_class(name):
    for p in TYPE_PREFIXES:
        if name.startswith(p):
            t = name[len(p):]
            break
    else:
        return None, None
    if t in EXEMPT:
        return t, 'exempt'
    if t.startswith('getnext'):
        return t, 'walk'
    if re.match(r'(add|put|push|set(?!size)|insert)', t):
        return t, 'insert'
    if re.match(r'(get|peek|find)', t):
        return t, 'get'
    if re.match(r'(remove|pop)', t):
        return t, 'remove'
    if re.match(r'(clear|truncate)', t):
        return t, 'clear'
    if re.match(r'(toarray|tostring)', t):
        return t, 'flatten'
    return t, 'other'


class SharedModel:
    def __init__(self, prog):
        self.prog = prog
        self.lockables = lockable_records(prog)
        self.fields = {}     # (rec, field) -> type
        self.node_records = set()
        recs = {}
        for u in prog.units:
            for rn, fl in u.record_fields.items():
                recs.setdefault(rn, (u, fl))
        self.recs = recs
        work = list(self.lockables)
        seen = set(work)
        while work:
            r = work.pop()
            if r not in recs:
                continue
            u, fl = recs[r]
            for f in fl:
                self.fields[(r, f['name'])] = f['type']
                tr, depth = u.resolve_typedef(f['type'])
                if tr and depth >= 1 and tr in recs and tr not in seen and not tr.startswith('qmutex'):
                    seen.add(tr)
                    if tr not in self.lockables:
                        self.node_records.add(tr)
                    work.append(tr)
        self.shared_records = set(self.lockables) | self.node_records
        self.shared_records.discard('qmutex_s')
        # constructors: functions returning R* that allocate
        self.constructors = collections.defaultdict(set)
        for f in prog.funcs.values():
            tr, depth = f.unit.resolve_typedef(f.rettype)
            if tr in self.lockables and depth == 1:
                if any(n.get('kind') == 'CallExpr' and prog.callee_name(n) in ('calloc', 'malloc')
                       for n in walk(f.body)):
                    self.constructors[tr].add(f.name)
        # writers of every field
        self.writers = collections.defaultdict(list)
        for f in prog.funcs.values():
            for n in walk(f.body):
                tgt = None
                k = n.get('kind')
                if k in ('BinaryOperator', 'CompoundAssignOperator') and (n.get('opcode') or '').endswith('=') \
                        and n.get('opcode') not in ('==', '!=', '<=', '>='):
                    tgt = strip(children(n)[0])
                elif k == 'UnaryOperator' and n.get('opcode') in ('++', '--'):
                    tgt = strip(children(n)[0])
                if tgt is not None and tgt.get('kind') == 'MemberExpr' and tgt.get('_field'):
                    fo = tgt['_field']
                    if fo[0] in self.shared_records:
                        self.writers[(fo[0], fo[1])].append((f, n.get('_line')))
        # static helpers that are called from constructors only (`alloc_slots()` that also records the range) write on the
        # constructor's behalf: the object is not shared yet
        callers = collections.defaultdict(set)
        for f in prog.funcs.values():
            for n in walk(f.body):
                if n.get('kind') == 'CallExpr':
                    nm = prog.callee_name(n)
                    if nm:
                        callers[nm].add(f.name)
        self.ctor_only = {}
        for r in self.lockables:
            co = set(self.constructors[r])
            changed = True
            while changed:
                changed = False
                for f in prog.funcs.values():
                    if f.name in co or not f.static or f.body is None:
                        continue
                    cs = callers.get(f.name, set())
                    if cs and cs <= co:
                        co.add(f.name)
                        changed = True
            self.ctor_only[r] = co
        self.immutable = set()
        for (r, fn), ty in self.fields.items():
            if r not in self.lockables:
                continue
            ws = self.writers.get((r, fn), [])
            if all(w[0].name in self.ctor_only[r] for w in ws):
                self.immutable.add((r, fn))
        self.fresh_fns = self._fresh_functions()

    def _fresh_functions(self):
        """Repo functions whose every returned value is NULL or a fresh allocation."""
        fresh = set()
        changed = True
        while changed:
            changed = False
            for f in self.prog.funcs.values():
                if f.key in fresh or not f.rettype.endswith('*'):
                    continue
                rets = [n for n in f.cfg.returns() if children(n.ast)]
                if not rets:
                    continue
                ok = True
                for r in rets:
                    e = strip(children(r.ast)[0])
                    if e.get('kind') == 'IntegerLiteral':
                        continue
                    if e.get('kind') == 'DeclRefExpr' and e.get('_ref', ('',))[0] == 'local':
                        if self.local_is_fresh(f, e['_ref'][1], fresh):
                            continue
                    if e.get('kind') == 'CallExpr' and self._call_fresh(f, e, fresh):
                        continue
                    ok = False
                    break
                if ok:
                    fresh.add(f.key)
                    changed = True
        return fresh

    def _call_fresh(self, f, call, fresh):
        nm = self.prog.callee_name(call)
        if nm in ALLOCATORS:
            return True
        c = self.prog.resolve_name(f.unit, nm) if nm else None
        return c is not None and c.key in fresh

    def local_is_fresh(self, f, var_id, fresh=None):
        """All definitions of the local are fresh allocations (or NULL)."""
        fresh = self.fresh_fns if fresh is None else fresh
        defs = []
        for n in walk(f.body):
            if n.get('kind') == 'VarDecl' and n.get('id') == var_id:
                init = var_init(n)
                if init is not None:
                    defs.append(init)
            elif n.get('kind') == 'BinaryOperator' and n.get('opcode') == '=':
                l = strip(children(n)[0])
                if l.get('kind') == 'DeclRefExpr' and l.get('_ref') and l['_ref'][1] == var_id:
                    defs.append(children(n)[1])
        if not defs:
            return False
        for d in defs:
            e = strip(d)
            if e.get('kind') == 'IntegerLiteral':
                continue
            if e.get('kind') == 'CallExpr' and self._call_fresh(f, e, fresh):
                continue
            return False
        return True

    def is_buffer_access(self, f, m):
        """`X->f[i]` / `*(X->f + i)` where f is a pointer field of a lockable record: the element
        buffer / slot array is mutable shared state even when the pointer itself is immutable."""
        b = strip(children(m)[0])
        while b.get('kind') == 'BinaryOperator' and b.get('opcode') in ('+', '-'):
            b = strip(children(b)[0])
        if b.get('kind') != 'MemberExpr':
            return None
        fo = b.get('_field')
        if not fo or fo[0] not in self.lockables or not fo[2].rstrip().endswith('*'):
            return None
        if '(*)' in fo[2] or fo[1] == 'qmutex':
            return None
        return (fo[0], fo[1] + '[]', fo[2])

    def is_shared_access(self, f, m):
        """m: MemberExpr.  Returns (record, field) if it is an access to mutable shared state."""
        fo = m.get('_field')
        if not fo or fo[0] not in self.shared_records:
            return None
        if fo[1] == 'qmutex' or '(*)' in fo[2]:
            return None
        if (fo[0], fo[1]) in self.immutable:
            return None
        b = strip(children(m)[0])
        if b.get('kind') == 'DeclRefExpr':
            r = b.get('_ref') or ('',)
            if not m.get('isArrow'):
                return None          # by-value local record (cursor / scratch copy)
            if r[0] == 'param' and not f.static:
                tr, depth = f.unit.resolve_typedef(qtype(b))
                if tr in self.node_records:
                    return None      # the user's cursor object
            if r[0] == 'local' and self.local_is_fresh(f, r[1]):
                return None          # node under construction, not yet published
        return fo


def entry_depths(prog, la, exempt_names):
    """Entry lock depth of static helpers: the minimum over their call sites in non-exempt
    callers (public functions are entered at depth 0)."""
    depth = {}
    witness = {}
    for k, f in prog.funcs.items():
        if not f.static:
            depth[k] = 0
    for _ in range(8):
        changed = False
        calls = collections.defaultdict(list)
        for k, f in prog.funcs.items():
            if k not in depth or f.name in exempt_names:
                continue
            if not f.static and op_class(f.name)[1] is None:
                continue   # public but not a container operation (diagnostic helpers)
            _ex, st, _ov = la.analyse(f, depth[k], want_states=True)
            for n in f.cfg.nodes:
                s = st.get(n.id)
                if not s:
                    continue
                for call in la.node_calls(f, n):
                    # a node that was unlinked inside the critical section is private afterwards (named exemption):
                    # handing it to a helper does not make the helper an unlocked accessor of shared state
                    argroots = [root_var(a) for a in children(call)[1:]]
                    if any(r and (f.name, r[2] if len(r) > 2 else '') in EXEMPT_ACCESS for r in argroots):
                        continue
                    for c in prog.callees(f.unit, call):
                        if isinstance(c, Ext) or not c.static:
                            continue
                        calls[c.key].append((min(s), f.name, n.line))
        for k, v in calls.items():
            m = min(v)
            if k not in depth or m[0] < depth[k]:
                depth[k] = m[0]
                witness[k] = m
                changed = True
        if not changed:
            break
    return depth, witness


def _borrowing_call(prog, f, callee_name, line):
    """the call at `line` is to a repository accessor with a copy flag (a bool parameter named newmem) passed as a
    literal false: the result points into container storage and is valid only while the lock is held"""
    from .expr import int_value
    for x in walk(f.body):
        if x.get('kind') == 'CallExpr' and x.get('_line') == line:
            f0 = strip(children(x)[0])
            nm = (f0.get('referencedDecl') or {}).get('name') if f0.get('kind') == 'DeclRefExpr' else f0.get('name')
            if nm != callee_name:
                continue
            for c in prog.callees(f.unit, x):
                if isinstance(c, Ext):
                    continue
                for i, p in enumerate(c.params):
                    if p.get('name') == 'newmem' and i + 1 < len(children(x)):
                        if int_value(children(x)[i + 1]) == 0:
                            return True
    return False


# callee -> indexes of the arguments whose pointee is read
READ_ARGS = {'atoll': (0,), 'atoi': (0,), 'atol': (0,), 'atof': (0,), 'strtol': (0,), 'strtoll': (0,), 'strtoul': (0,), 'strtod': (0,),
             'memcpy': (1,), 'memmove': (1,), 'strdup': (0,), 'strndup': (0,), 'qmemdup': (0,), 'strlen': (0,), 'strcmp': (0, 1),
             'strcasecmp': (0, 1), 'memcmp': (0, 1), 'strcpy': (1,), 'strncpy': (1,)}


def rule_c13(prog, rep):
    la = LockAnalysis(prog)
    sm = SharedModel(prog)
    rep.rule('B-guard', 'every access to mutable shared container state in put/get/remove/pop/clear/toarray/tostring happens at lock depth >= 1')
    rep.rule('B-single', 'each such operation enters its outermost critical section at most once on every path')
    rep.rule('B-immut', 'fields read without the lock are written only by the constructor')
    rep.notes['lockable_records'] = sm.lockables
    rep.notes['node_records'] = sorted(sm.node_records)
    rep.notes['immutable_fields'] = sorted('%s.%s' % k for k in sm.immutable)
    rep.notes['constructors'] = {k: sorted(v) for k, v in sm.constructors.items()}
    for k in sorted(sm.immutable):
        rep.instance('B-immut')
        rep.oblige('B-immut', True)
    exempt_names = set()
    classes = {}
    for k, f in prog.funcs.items():
        if f.static:
            continue
        t, cls = op_class(f.name)
        classes[f.name] = cls
        if cls == 'exempt' or f.name in CALLER_LOCKED:
            exempt_names.add(f.name)
        if any(f.name in v for v in sm.constructors.values()):
            exempt_names.add(f.name)
            classes[f.name] = 'constructor'
    depth, witness = entry_depths(prog, la, exempt_names)
    checked = collections.Counter()
    info = []
    # which public function(s) reach a static helper at its minimal depth -> class of the helper
    for k in sorted(prog.funcs, key=str):
        f = prog.funcs[k]
        if k not in depth:
            continue
        if f.name in exempt_names:
            continue
        cls = classes.get(f.name)
        if not f.static and cls is None:
            continue   # not a container operation
        _ex, st, _ov = la.analyse(f, depth[k], want_states=True)
        hits = {}
        nacc = 0
        for n in f.cfg.nodes:
            s = st.get(n.id)
            if not s or n.kind == 'macro' or not isinstance(n.ast, dict):
                continue
            for m in walk(n.ast):
                if m.get('kind') == 'ArraySubscriptExpr' or (m.get('kind') == 'UnaryOperator' and m.get('opcode') == '*'):
                    fo = sm.is_buffer_access(f, m)
                elif m.get('kind') == 'MemberExpr':
                    fo = sm.is_shared_access(f, m)
                else:
                    continue
                if not fo:
                    continue
                nacc += 1
                if min(s) >= 1:
                    continue
                rv = root_var(m)
                if rv and (f.name, rv[2] if len(rv) > 2 else '') in EXEMPT_ACCESS:
                    continue
                hits.setdefault((fo[0], fo[1]), []).append(n.line)
        # element bytes read through a local copy of a shared payload pointer after the lock was released
        # (`data = obj->data; unlock(); memcpy(dup, data, n)`): the block may be freed or replaced by another thread
        rd_alias = None
        for n in f.cfg.nodes:
            s = st.get(n.id)
            if not s or min(s) >= 1 or n.kind == 'macro' or not isinstance(n.ast, dict):
                continue
            for c in walk(n.ast):
                if c.get('kind') != 'CallExpr':
                    continue
                srcs = READ_ARGS.get(prog.callee_name(c))
                if not srcs:
                    continue
                args = children(c)[1:]
                for i in srcs:
                    if i >= len(args):
                        continue
                    a = strip(args[i])
                    if a.get('kind') != 'DeclRefExpr' or (a.get('_ref') or ('',))[0] != 'local':
                        continue
                    if rd_alias is None:
                        from .dataflow import ReachingDefs, origins
                        rd_alias = ReachingDefs(f)
                    if n.id not in rd_alias.IN:
                        continue
                    for t in origins(rd_alias, n.id, a):
                        mcall = re.match(r'call:(\w+)@(\d+)', t)
                        if mcall and _borrowing_call(prog, f, mcall.group(1), int(mcall.group(2))):
                            nacc += 1
                            hits.setdefault(('borrowed', '%s(..., newmem=false) result read after the callee released the lock'
                                             % mcall.group(1)), []).append(n.line)
                            continue
                        if not t.startswith('path:'):
                            continue
                        for m in walk(f.body):
                            if m.get('kind') == 'MemberExpr' and canon(m) == t[5:]:
                                fo = sm.is_shared_access(f, m)
                                if fo and qtype(m).rstrip().endswith('*'):
                                    nacc += 1
                                    hits.setdefault((fo[0], fo[1] + ' (bytes read through a local alias after the unlock)'), []).append(n.line)
                                break
        if nacc == 0:
            continue
        if f.static:
            # attribute to the operation class of the witness caller
            w = witness.get(k)
            cls = classes.get(w[1]) if w else None
            if w and cls is None:
                # caller is itself a helper: walk up
                seen = set()
                cur = w
                while cur and classes.get(cur[1]) is None and cur[1] not in seen:
                    seen.add(cur[1])
                    nxt = [witness.get(kk) for kk, ff in prog.funcs.items() if ff.name == cur[1] and kk in witness]
                    cur = nxt[0] if nxt else None
                cls = classes.get(cur[1]) if cur else None
        armed = cls in ('insert', 'get', 'remove', 'clear', 'flatten') or (cls == 'walk' and any(
            nn.kind == 'macro' or la.effect(f, nn) not in ({0}, set()) for nn in f.cfg.nodes))
        checked[cls] += 1
        if armed:
            rep.instance('B-guard')
            rep.oblige('B-guard', not hits, {'function': f.name, 'class': cls, 'entry_depth': depth[k],
                                            'shared_accesses': nacc, 'unlocked': sorted('%s.%s' % kk for kk in hits)})
        for (r, fld), lines in sorted(hits.items()):
            msg = ('reads/writes %s.%s at line(s) %s outside the critical section (lock depth 0)'
                   % (r, fld, sorted(set(lines))))
            if f.static and witness.get(k):
                msg += '; helper reached at depth %d from %s:%s' % witness[k]
            if armed:
                rep.violation('B-guard', f, min(lines), '%s.%s' % (r, fld), msg)
            else:
                info.append('%s [%s]: %s' % (f.name, cls, msg))
    rep.notes['functions_by_class'] = dict(checked)
    rep.notes['unlocked_access_outside_C13_operation_list'] = info
    rep.notes['exempt_functions'] = sorted(exempt_names)
    _single_section(prog, la, rep, classes, exempt_names)
    return la, sm


def _single_section(prog, la, rep, classes, exempt_names):
    """B-single: number of outermost critical sections entered on any path <= 1."""
    enters = {k: 0 for k in prog.funcs}

    def run(f):
        cfg = f.cfg
        state = {cfg.entry.id: {(0, 0)}}
        work = [cfg.entry]
        worst = 0
        while work:
            n = work.pop()
            outs = set()
            for (d, e) in state[n.id]:
                if n.kind == 'macro':
                    m = n.info[0]
                    if m == 'Q_MUTEX_ENTER':
                        outs.add((min(d + 1, 6), min(e + (1 if d == 0 else 0), 3)))
                    elif m == 'Q_MUTEX_LEAVE':
                        outs.add((max(d - 1, -3), e))
                    else:
                        outs.add((d, e))
                    continue
                cur = {(d, e)}
                for call in la.node_calls(f, n):
                    nxt = set()
                    for c in prog.callees(f.unit, call):
                        if isinstance(c, Ext):
                            nxt |= cur
                            continue
                        if c.key in la.intended:
                            deltas = {la.intended[c.key]}
                        else:
                            deltas = la.summary.get(c.key) or {0}
                        for (d0, e0) in cur:
                            for dl in deltas:
                                nxt.add((max(-3, min(6, d0 + dl)), min(3, e0 + (enters[c.key] if d0 == 0 else 0))))
                    cur = nxt or cur
                outs |= cur
            for (s, _l) in n.succs:
                if s is cfg.exit:
                    for (_d, e) in outs:
                        worst = max(worst, e)
                    continue
                old = state.get(s.id)
                if old is None:
                    state[s.id] = set(outs)
                    work.append(s)
                elif not outs <= old:
                    old |= outs
                    work.append(s)
        return worst

    for _ in range(6):
        changed = False
        for k, f in prog.funcs.items():
            w = run(f)
            if w != enters[k]:
                enters[k] = w
                changed = True
        if not changed:
            break
    for k in sorted(prog.funcs, key=str):
        f = prog.funcs[k]
        cls = classes.get(f.name)
        if f.static or cls not in ('insert', 'get', 'remove', 'clear', 'flatten'):
            continue
        if enters[k] == 0:
            continue
        inherits = [c.name for n in f.cfg.nodes for call in la.node_calls(f, n)
                    for c in prog.callees(f.unit, call) if not isinstance(c, Ext) and enters.get(c.key, 0) >= 2
                    and not c.static and classes.get(c.name) in ('insert', 'get', 'remove', 'clear', 'flatten')]
        if inherits:
            rep.notes.setdefault('B-single_inherited', []).append('%s inherits from %s' % (f.name, sorted(set(inherits))))
            continue   # root cause is reported at the callee
        rep.instance('B-single')
        ok = enters[k] <= 1
        rep.oblige('B-single', ok, {'function': f.name, 'critical_sections_on_worst_path': enters[k]})
        if not ok:
            rep.violation('B-single', f, f.line, 'sections',
                          'the operation enters its outermost critical section %s times on some path '
                          '(check-then-act split across two sections)' % ('2+' if enters[k] >= 2 else enters[k]))
