"""C02 - the restructuring primitives of the red-black tree are the published transformations (qtreetbl.c).

ROT  rotate_left / rotate_right / flip_color are straight-line heap transformations.  Their bodies (static helpers they
     call inlined) are evaluated symbolically over a heap of distinct symbolic nodes h, h.left, h.right, h.right.left, ...
     (distinct paths denote distinct nodes - true in a tree) and the resulting heap difference and return value are
     compared with the reference transformation:

       rotate_left(h):   x = h.right;  h.right := x.left;  x.left := h;  x.red := old h.red;  h.red := true;   returns x
       rotate_right(h):  mirror image
       flip_color(h):    h.red, h.left.red, h.right.red := negations of their old values;                       returns h

     Any other write to a node field, a different colour hand-over, or a different return value is a violation.  These three
     are what preserves search order and black height in every insertion and deletion; the rules T3 / T3-root / T9 (results
     stored back, root blackened, no return between a descent and the way-up repairs) are the other structural necessary
     conditions and are run alongside.  Validity of every reachable tree is NOT decided.
"""
from .frontend import walk, children, strip, strip_parens, AnalysisBroken, qtype
from .expr import canon, int_value, var_init, is_null

UNIT = 'src/containers/qtreetbl.c'
LINKS = ('left', 'right')


class NotStraight(Exception):
    pass


class SymHeap:
    def __init__(self, prog, unit):
        self.prog, self.unit = prog, unit
        self.heap = {}           # (node path, field) -> value
        self.other_writes = []   # writes that are not node fields (ignored counters are filtered by the caller)

    # values: ('node', path) | ('bool', True/False) | ('init', path, field) | ('not', v) | ('null',) | ('int', n)
    def read(self, node, field):
        if node[0] != 'node':
            raise NotStraight('field %s read through %r' % (field, node))
        k = (node[1], field)
        if k in self.heap:
            return self.heap[k]
        if field in LINKS:
            return ('node', node[1] + '.' + field)
        return ('init', node[1], field)

    def write(self, node, field, val):
        if node[0] != 'node':
            raise NotStraight('field %s written through %r' % (field, node))
        self.heap[(node[1], field)] = val

    def ev(self, e, env):
        e = strip_parens(strip(e))
        k = e.get('kind')
        v0 = int_value(e)
        if is_null(e) and not (isinstance(v0, int) and not (qtype(e) or '').rstrip().endswith('*')):
            return ('null',)
        v = int_value(e)
        if isinstance(v, int):
            return ('bool', bool(v)) if v in (0, 1) else ('int', v)
        if k == 'DeclRefExpr':
            nm = canon(e)
            if nm in env:
                return env[nm]
            raise NotStraight('unknown variable %s' % nm)
        if k == 'MemberExpr':
            return self.read(self.ev(children(e)[0], env), e.get('name'))
        if k == 'UnaryOperator' and e.get('opcode') == '&':
            t = strip_parens(strip(children(e)[0]))
            if t.get('kind') == 'MemberExpr':
                base = self.ev(children(t)[0], env)
                if base[0] != 'node':
                    raise NotStraight('address of a field of %r' % (base,))
                return ('ref', base[1], t.get('name'))          # pointer to a link field
            raise NotStraight('address-of %s' % canon(t)[:30])
        if k == 'UnaryOperator' and e.get('opcode') == '*':
            r = self.ev(children(e)[0], env)
            if r[0] == 'ref':
                return self.read(('node', r[1]), r[2])
            raise NotStraight('dereference of %r' % (r,))
        if k == 'ConditionalOperator':
            c = self.ev(children(e)[0], env)
            if c[0] == 'bool':
                return self.ev(children(e)[1 if c[1] else 2], env)
            raise NotStraight('conditional expression on a non-constant')
        if k == 'UnaryOperator' and e.get('opcode') == '!':
            a = self.ev(children(e)[0], env)
            if a[0] == 'bool':
                return ('bool', not a[1])
            if a[0] == 'not':
                return a[1]
            return ('not', a)
        if k == 'CallExpr':
            return self.call(e, env)
        raise NotStraight('expression %s' % canon(e)[:40])

    def call(self, e, env):
        nm = self.prog.callee_name(e)
        g = self.prog.resolve_name(self.unit, nm) if nm else None
        if g is None or getattr(g, 'body', None) is None or not g.static:
            raise NotStraight('call of %s' % nm)
        args = [self.ev(a, env) for a in children(e)[1:]]
        env2 = {p.get('name'): a for p, a in zip(g.params, args)}
        return self.run(g, env2, depth=1)

    def run(self, g, env, depth=0):
        """straight-line execution; an `if` forks (both arms are followed with copies of the heap) and the outcomes are kept in
        self.outcomes: list of (heap, return value).  Only the top-level function may fork."""
        if depth > 3:
            raise NotStraight('helper nesting')
        if depth == 0:
            self.outcomes = []
            self._exec(list(children(g.body)), env, top=True)
            if not self.outcomes:
                raise NotStraight('no path returns')
            return self.outcomes[0][1]
        return self._exec(list(children(g.body)), env, top=False)

    def _exec(self, stmts, env, top):
        i = 0
        while i < len(stmts):
            st = stmts[i]
            i += 1
            k = st.get('kind')
            if k == 'CompoundStmt':
                stmts = list(children(st)) + stmts[i:]
                i = 0
                continue
            if k == 'DeclStmt':
                for d in children(st):
                    if d.get('kind') == 'VarDecl':
                        init = var_init(d)
                        env[d.get('name')] = self.ev(init, env) if init is not None else ('undef',)
            elif k == 'ReturnStmt':
                ret = self.ev(children(st)[0], env) if children(st) else None
                if top:
                    self.outcomes.append((dict(self.heap), ret))
                return ret
            elif k == 'NullStmt':
                continue
            elif k == 'IfStmt' and top:
                ch = children(st)
                arms = [ch[1]] + ([ch[2]] if len(ch) > 2 else [None])
                saved_heap, saved_env = dict(self.heap), dict(env)
                for arm in arms:
                    self.heap, env2 = dict(saved_heap), dict(saved_env)
                    rest = ([arm] if arm is not None else []) + stmts[i:]
                    self._exec(rest, env2, top=True)
                return None
            elif k in ('IfStmt', 'WhileStmt', 'ForStmt', 'DoStmt', 'SwitchStmt', 'GotoStmt', 'LabelStmt'):
                raise NotStraight('control flow (%s)' % k)
            else:
                self.stmt_expr(st, env)
        if top:
            self.outcomes.append((dict(self.heap), None))
        return None

    def stmt_expr(self, e, env):
        e = strip_parens(strip(e))
        k = e.get('kind')
        if k == 'BinaryOperator' and e.get('opcode') == '=':
            val = self.ev(children(e)[1], env)
            l = strip_parens(strip(children(e)[0]))
            if l.get('kind') == 'UnaryOperator' and l.get('opcode') == '*':
                r = self.ev(children(l)[0], env)
                if r[0] != 'ref':
                    raise NotStraight('store through %r' % (r,))
                self.write(('node', r[1]), r[2], val)
            elif l.get('kind') == 'MemberExpr':
                self.write(self.ev(children(l)[0], env), l.get('name'), val)
            elif l.get('kind') == 'DeclRefExpr' and canon(l) in env:
                env[canon(l)] = val
            else:
                self.other_writes.append(canon(l))
            return
        if k == 'UnaryOperator' and e.get('opcode') in ('++', '--'):
            t = strip(children(e)[0])
            if t.get('kind') == 'DeclRefExpr' and canon(t) not in env:
                return                       # a global statistics counter
            raise NotStraight('increment of %s' % canon(t))
        if k == 'CompoundAssignOperator':
            t = strip(children(e)[0])
            if t.get('kind') == 'DeclRefExpr' and canon(t) not in env:
                return
            raise NotStraight('update of %s' % canon(t))
        if k == 'CallExpr':
            self.call(e, env)
            return
        if k == 'BinaryOperator' and e.get('opcode') == ',':
            for c in children(e):
                self.stmt_expr(c, env)
            return
        raise NotStraight('statement %s' % canon(e)[:40])


def _norm(v):
    """normal form of a boolean value: constants, init symbols, (even/odd) negations"""
    neg = False
    while v[0] == 'not':
        neg = not neg
        v = v[1]
    if v[0] == 'bool':
        return ('bool', v[1] != neg)
    return ('not', v) if neg else v


def _reference(name):
    I = lambda p, f: ('init', p, f)
    N = lambda p: ('node', p)
    if name == 'rotate_left':
        return ({('h', 'right'): N('h.right.left'), ('h.right', 'left'): N('h'), ('h.right', 'red'): I('h', 'red'),
                 ('h', 'red'): ('bool', True)}, N('h.right'))
    if name == 'rotate_right':
        return ({('h', 'left'): N('h.left.right'), ('h.left', 'right'): N('h'), ('h.left', 'red'): I('h', 'red'),
                 ('h', 'red'): ('bool', True)}, N('h.left'))
    if name == 'flip_color':
        return ({('h', 'red'): ('not', I('h', 'red')), ('h.left', 'red'): ('not', I('h.left', 'red')),
                 ('h.right', 'red'): ('not', I('h.right', 'red'))}, N('h'))
    return None


def rule_rot(prog, rep, rid='ROT'):
    rep.rule(rid, 'rotate_left / rotate_right / flip_color, evaluated symbolically over a heap of distinct nodes (helpers inlined), '
                  'are exactly the published transformations: link moves, colour hand-over, return value, no other node write')
    prog.unit(UNIT)
    found = 0
    for name in ('rotate_left', 'rotate_right', 'flip_color'):
        f = prog.func(name, UNIT) if hasattr(prog, 'func') else None
        if f is None:
            fs = [g for g in prog.funcs_in(UNIT) if g.name == name]
            f = fs[0] if fs else None
        if f is None or f.body is None:
            continue
        found += 1
        rep.instance(rid)
        ref_heap, ref_ret = _reference(name)
        sh = SymHeap(prog, f.unit)
        why = None
        try:
            ret = sh.run(f, {f.params[0].get('name'): ('node', 'h')})
        except NotStraight as e:
            rep.oblige(rid, False, {'function': name, 'problem': str(e)})
            rep.broken.append('%s: %s is not a straight-line heap transformation any more (%s): the primitive cannot be compared with '
                              'its reference' % (rid, name, e))
            continue
        ref = {k: (_norm(v) if k[1] not in LINKS else v) for k, v in ref_heap.items()}
        eff = {}
        for (heap, ret) in sh.outcomes:
            # effective writes: those that differ from the initial heap
            eff = {}
            for (node, fld), v in heap.items():
                nv = _norm(v) if fld not in LINKS else v
                initial = ('node', node + '.' + fld) if fld in LINKS else ('init', node, fld)
                if nv != initial:
                    eff[(node, fld)] = nv
            if eff != ref:
                extra = sorted(set(eff) - set(ref))
                missing = sorted(set(ref) - set(eff))
                differ = sorted(k for k in set(eff) & set(ref) if eff[k] != ref[k])
                parts = []
                if differ:
                    k = differ[0]
                    parts.append('%s.%s becomes %s, the reference says %s' % (k[0], k[1], _show(eff[k]), _show(ref[k])))
                if missing:
                    parts.append('%s.%s is not updated (reference: %s)' % (missing[0][0], missing[0][1], _show(ref[missing[0]])))
                if extra:
                    parts.append('%s.%s is written (%s) although the transformation leaves it alone' % (extra[0][0], extra[0][1], _show(eff[extra[0]])))
                why = '; '.join(parts) + (' (on one of %d paths)' % len(sh.outcomes) if len(sh.outcomes) > 1 else '')
                break
            elif ret != ref_ret:
                why = 'returns %s, the reference returns %s' % (_show(ret), _show(ref_ret))
                break
        rep.oblige(rid, why is None, {'function': name, 'node_fields_written': sorted('%s.%s' % k for k in eff)})
        if why is not None:
            rep.violation(rid, f, f.line, 'primitive:%s' % name,
                          '%s is not the published transformation: %s - search order or black height is no longer preserved by every '
                          'insertion/deletion that uses it' % (name, why))
    if found == 0:
        raise AnalysisBroken('ROT: none of rotate_left / rotate_right / flip_color found in %s' % UNIT)


def _show(v):
    if v is None:
        return 'nothing'
    if v[0] == 'node':
        return v[1]
    if v[0] == 'init':
        return 'old %s.%s' % (v[1], v[2])
    if v[0] == 'not':
        return '!(%s)' % _show(v[1])
    if v[0] == 'bool':
        return 'true' if v[1] else 'false'
    return repr(v)
