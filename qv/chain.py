"""C05 rules for the chained hash table: S1 slot-index agreement, S2 lookup-predicate agreement,
S3 chain-unlink protocol (S3 is also a leak condition and is reported under C11 too)."""
from .frontend import walk, children, strip, strip_parens, qtype
from .expr import canon, access_path, is_null
from .dataflow import ReachingDefs
from .hashrules import _loop_nodes

UNIT = 'src/containers/qhashtbl.c'


def expand(rd, node_id, e, depth=0):
    """canon(e) with locals replaced by their single reaching definition (recursively)."""
    e = strip(e)
    k = e.get('kind')
    if k == 'DeclRefExpr' and (e.get('_ref') or ('',))[0] == 'local' and depth < 5:
        ds = rd.reaching(node_id, e['_ref'][1])
        if len(ds) == 1 and ds[0].kind in ('init', 'assign') and ds[0].rhs is not None:
            return expand(rd, ds[0].node, ds[0].rhs, depth + 1)
        return canon(e)
    if k in ('BinaryOperator',):
        a, b = [expand(rd, node_id, c, depth) for c in children(e)]
        op = e.get('opcode')
        if op in ('+', '*', '&', '|', '^', '==', '!=') and b < a:
            a, b = b, a
        return '(%s %s %s)' % (a, op, b)
    if k == 'CallExpr':
        ch = children(e)
        return '%s(%s)' % (canon(ch[0]), ', '.join(expand(rd, node_id, c, depth) for c in ch[1:]))
    if k == 'UnaryOperator':
        return '(%s%s)' % (e.get('opcode'), expand(rd, node_id, children(e)[0], depth))
    return canon(e)


def slot_subscripts(f):
    """(cfg node, ArraySubscriptExpr) for X->slots[i]"""
    out = []
    for n in f.cfg.nodes:
        if n.id not in f.cfg.reachable or not isinstance(n.ast, dict) or n.kind == 'macro':
            continue
        for x in walk(n.ast):
            if x.get('kind') == 'ArraySubscriptExpr':
                b = strip(children(x)[0])
                if b.get('kind') == 'MemberExpr' and b.get('name') == 'slots':
                    out.append((n, x))
    return out


def rule_s1_s2(prog, rep):
    rep.rule('S1', 'put, get and remove derive the chain slot from the same expression (hash function, length argument, modulus); '
                   'the walk resumes at that expression + 1')
    rep.rule('S2', 'put, get and remove recognise a key with the same chain-match predicate')
    prog.unit(UNIT)
    fs = {n: prog.need_func(n) for n in ('qhashtbl_put', 'qhashtbl_get', 'qhashtbl_remove', 'qhashtbl_getnext')}
    idx_exprs = {}
    preds = {}
    for name in ('qhashtbl_put', 'qhashtbl_get', 'qhashtbl_remove'):
        f = fs[name]
        rd = ReachingDefs(f)
        exprs = set()
        for (n, x) in slot_subscripts(f):
            exprs.add(expand(rd, n.id, children(x)[1]))
        idx_exprs[name] = exprs
        # chain-match predicate: conditions inside the loop that walks obj = obj->next
        ps = set()
        for (head, loop) in f.cfg.loops:
            body = _loop_nodes(f.cfg, head)
            steps = any(isinstance(f.cfg.nodes[i].ast, dict) and '->next' in canon(f.cfg.nodes[i].ast)
                        and f.cfg.nodes[i].kind == 'act' for i in body)
            if not steps:
                continue
            for i in sorted(body):
                m = f.cfg.nodes[i]
                if m.kind == 'cond' and isinstance(m.ast, dict):
                    c = expand(rd, m.id, m.ast)
                    if '->hash' in c or 'strcmp' in c or 'memcmp' in c:
                        ps.add(c.replace(' != ', ' == '))      # polarity-insensitive: how the test is branched on is free
        preds[name] = ps
    ref = idx_exprs['qhashtbl_put']
    for name, ex in idx_exprs.items():
        rep.instance('S1')
        ok = len(ex) == 1 and ex == ref and len(ref) == 1
        rep.oblige('S1', ok, {'function': name, 'slot_index': sorted(ex)})
        if not ok:
            rep.violation('S1', fs[name], fs[name].line, 'slot-index',
                          '%s indexes the slot array with %s but qhashtbl_put uses %s: a key is stored in one chain and '
                          'looked up in another' % (name, sorted(ex), sorted(ref)))
    # getnext resume index
    f = fs['qhashtbl_getnext']
    rd = ReachingDefs(f)
    rep.instance('S1')
    resume = set()
    for n in f.cfg.nodes:
        if isinstance(n.ast, dict) and n.kind != 'macro':
            for x in walk(n.ast):
                if x.get('kind') == 'BinaryOperator' and x.get('opcode') == '=' and access_path(children(x)[0]) == 'idx':
                    resume.add(canon(children(x)[1]))
    want = None
    if len(ref) == 1:
        r = list(ref)[0]
        # put's index is (H(name) % tbl->range); the walk re-derives it from the stored hash of the cursor
        import re
        m = re.match(r'^\((.*) % (.*)\)$', r)
        if m:
            want = '(1 + (obj->hash %% %s))' % m.group(2)
    ok = want is not None and (want in resume or ('(%s + 1)' % want[5:-1]) in resume)
    rep.oblige('S1', ok, {'function': 'qhashtbl_getnext', 'resume_index': sorted(resume), 'expected': want})
    if not ok:
        rep.violation('S1', f, f.line, 'resume-index', 'the walk resumes at %s, expected %s (the slot after the cursor\'s own chain)'
                      % (sorted(resume), want))
    refp = preds['qhashtbl_put']
    for name, ps in preds.items():
        rep.instance('S2')
        ok = bool(ps) and ps == refp
        rep.oblige('S2', ok, {'function': name, 'predicate': sorted(ps)})
        if not ok:
            rep.violation('S2', fs[name], fs[name].line, 'match-predicate',
                          '%s matches a chain entry with %s but qhashtbl_put uses %s' % (name, sorted(ps), sorted(refp)))


def rule_s3(prog, rep, units, rid='S3'):
    """Predecessor-pointer unlink loops: every iteration that goes round again records the cursor as the
    new predecessor; the unlink writes the head when there is no predecessor and prev->next otherwise."""
    rep.rule(rid, 'in a chain-removal loop with a predecessor variable, every path back to the loop head assigns the predecessor '
                  'the cursor, and the unlink handles both the head and the interior case')
    for rel in units:
        for f in sorted(prog.funcs_in(rel), key=lambda x: x.line or 0):
            cfg = f.cfg
            for (head, loop) in cfg.loops:
                body = _loop_nodes(cfg, head)
                # cursor: variable advanced with C = C->next inside the loop
                cursors = set()
                for i in body:
                    m = cfg.nodes[i]
                    if isinstance(m.ast, dict) and m.kind == 'act':
                        for x in walk(m.ast):
                            if x.get('kind') == 'BinaryOperator' and x.get('opcode') == '=':
                                l, r = children(x)
                                lp = access_path(l)
                                rs = strip(r)
                                if lp and rs.get('kind') == 'MemberExpr' and rs.get('name') == 'next' and \
                                        access_path(children(rs)[0]) == lp:
                                    cursors.add(lp)
                if not cursors:
                    continue
                # predecessor: local P used in an unlink `P->next = C->next` inside the loop statement
                for c in sorted(cursors):
                    cands = set()
                    for x in walk(loop):
                        if x.get('kind') == 'BinaryOperator' and x.get('opcode') == '=' and canon(children(x)[1]) == '%s->next' % c:
                            l = strip(children(x)[0])
                            if l.get('kind') == 'MemberExpr' and l.get('name') == 'next':
                                bp = access_path(children(l)[0])
                                if bp and '->' not in bp and bp != c:
                                    cands.add(bp)
                    for p in sorted(cands):
                        assigns = []
                        for i in body:
                            m = cfg.nodes[i]
                            if isinstance(m.ast, dict) and m.kind == 'act':
                                for x in walk(m.ast):
                                    if x.get('kind') == 'BinaryOperator' and x.get('opcode') == '=':
                                        l, r = children(x)
                                        if access_path(r) == c and access_path(l) == p:
                                            assigns.append(m)
                        rep.instance(rid)
                        # the predecessor must be recorded before the cursor advances in that iteration
                        late = None
                        advs = []
                        for i in body:
                            m = cfg.nodes[i]
                            if isinstance(m.ast, dict) and m.kind == 'act':
                                order = []
                                for x in walk(m.ast):
                                    if x.get('kind') == 'BinaryOperator' and x.get('opcode') == '=':
                                        l, r = children(x)
                                        rs = strip(r)
                                        if access_path(l) == c and rs.get('kind') == 'MemberExpr' and rs.get('name') == 'next' \
                                                and access_path(children(rs)[0]) == c:
                                            order.append(('adv', x.get('_off') or 0))
                                        elif access_path(l) == p and access_path(r) == c:
                                            order.append(('rec', x.get('_off') or 0))
                                kinds = [k for (k, _o) in sorted(order, key=lambda t: t[1])]
                                if 'adv' in kinds:
                                    advs.append(m)
                                    if 'rec' in kinds and kinds.index('adv') < len(kinds) - 1 - kinds[::-1].index('rec'):
                                        late = m
                        if late is None:
                            for v in advs:
                                # a path advance -> record that does not pass the loop head
                                seen2 = set()
                                work2 = [s2 for (s2, _l) in v.succs]
                                while work2 and late is None:
                                    m2 = work2.pop()
                                    if m2 is head or m2.id in seen2 or m2.id not in body:
                                        continue
                                    seen2.add(m2.id)
                                    if any(m2 is a for a in assigns):
                                        late = m2
                                        break
                                    for (s2, _l) in m2.succs:
                                        work2.append(s2)
                        if late is not None:
                            rep.oblige(rid, False, {'function': f.name, 'cursor': c, 'predecessor': p})
                            rep.violation(rid, f, late.line, 'prev-late:%s' % p,
                                          '`%s = %s` at line %s executes after the cursor has already advanced in that iteration: %s is the '
                                          'cursor itself, not its predecessor, so the unlink corrupts the chain' % (p, c, late.line, p))
                            continue
                        aset = {m.id for m in assigns}
                        # a cycle head -> ... -> head avoiding every `P = C`
                        bad = _cycle_avoiding(cfg, head, body, aset)
                        # head case: some store of C->next into something that is not P->next, under P == NULL
                        headstore = any(
                            x.get('kind') == 'BinaryOperator' and x.get('opcode') == '=' and canon(children(x)[1]) == '%s->next' % c
                            and canon(children(x)[0]) != '%s->next' % p and access_path(children(x)[0]) != c
                            and strip(children(x)[0]).get('kind') != 'DeclRefExpr'
                            for x in walk(loop))
                        ok = bad is None and headstore
                        rep.oblige(rid, ok, {'function': f.name, 'cursor': c, 'predecessor': p, 'loop_line': head.line})
                        if bad is not None:
                            rep.violation(rid, f, head.line, 'prev:%s' % p,
                                          'the loop at line %s can go round without `%s = %s` (via line(s) %s): the next unlink '
                                          'through %s->next drops every entry between the stale predecessor and the victim '
                                          '(unreachable, never freed)' % (head.line, p, c,
                                                                          sorted({x.line for x in bad if x.line})[:6], p))
                        elif not headstore:
                            rep.violation(rid, f, head.line, 'head:%s' % p,
                                          'the unlink only writes %s->next: removing the first entry of the chain (no predecessor) '
                                          'is not handled' % p)


def _cycle_avoiding(cfg, head, body, avoid):
    seen = set()
    work = [(s, [s]) for (s, _l) in head.succs if s.id in body]
    while work:
        n, path = work.pop()
        if n is head:
            return path
        if n.id in seen or n.id in avoid or n.id not in body:
            continue
        seen.add(n.id)
        for (s, _l) in n.succs:
            work.append((s, path + [s]))
    return None
