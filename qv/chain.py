"""C05 rules for the chained hash table: S1 slot-index agreement, S2 lookup-predicate agreement,
S3 chain-unlink protocol (S3 is also a leak condition and is reported under C11 too)."""
from .frontend import walk, children, strip, strip_parens, qtype
from .expr import canon, access_path, is_null, int_value
from .dataflow import ReachingDefs
from .hashrules import _loop_nodes

UNIT = 'src/containers/qhashtbl.c'


def expand(rd, node_id, e, depth=0):
    """canon(e) with locals replaced by their single reaching definition (recursively)."""
    e = strip(e)
    k = e.get('kind')
    if k == 'DeclRefExpr' and (e.get('_ref') or ('',))[0] == 'local' and depth < 5:
        ds = rd.reaching(node_id, e['_ref'][1])
        if len(ds) == 1 and ds[0].kind in ('init', 'assign') and ds[0].rhs is not None:
            return expand(rd, ds[0].node, ds[0].rhs, depth + 1)
        return canon(e)
    if k in ('BinaryOperator',):
        a, b = [expand(rd, node_id, c, depth) for c in children(e)]
        op = e.get('opcode')
        if op in ('+', '*', '&', '|', '^', '==', '!=') and b < a:
            a, b = b, a
        return '(%s %s %s)' % (a, op, b)
    if k == 'CallExpr':
        ch = children(e)
        return '%s(%s)' % (canon(ch[0]), ', '.join(expand(rd, node_id, c, depth) for c in ch[1:]))
    if k == 'UnaryOperator':
        return '(%s%s)' % (e.get('opcode'), expand(rd, node_id, children(e)[0], depth))
    return canon(e)


def slot_subscripts(f):
    """(cfg node, ArraySubscriptExpr) for X->slots[i]"""
    out = []
    for n in f.cfg.nodes:
        if n.id not in f.cfg.reachable or not isinstance(n.ast, dict) or n.kind == 'macro':
            continue
        for x in walk(n.ast):
            if x.get('kind') == 'ArraySubscriptExpr':
                b = strip(children(x)[0])
                if b.get('kind') == 'MemberExpr' and b.get('name') == 'slots':
                    out.append((n, x))
    return out


def rule_s1_s2(prog, rep):
    rep.rule('S1', 'put, get and remove derive the chain slot from the same expression (hash function, length argument, modulus); '
                   'the walk resumes at that expression + 1')
    rep.rule('S2', 'put, get and remove recognise a key with the same chain-match predicate')
    prog.unit(UNIT)
    fs = {n: prog.need_func(n) for n in ('qhashtbl_put', 'qhashtbl_get', 'qhashtbl_remove', 'qhashtbl_getnext')}
    idx_exprs = {}
    preds = {}
    import re as _re

    def collect(f, subst, depth=0):
        """(slot index expressions, chain-match predicates) of f and of the static helpers it calls, with the helpers'
        parameters replaced by the caller's (expanded) argument expressions"""
        rd = ReachingDefs(f)

        def sub(text):
            if not subst:
                return text
            return _re.sub(r'[A-Za-z_]\w*', lambda m: subst.get(m.group(0), m.group(0)), text)
        exprs, ps = set(), set()
        for (n, x) in slot_subscripts(f):
            exprs.add(sub(expand(rd, n.id, children(x)[1])))
        for (head, loop) in f.cfg.loops:
            body = _loop_nodes(f.cfg, head)
            steps = any(isinstance(f.cfg.nodes[i].ast, dict) and '->next' in canon(f.cfg.nodes[i].ast)
                        and f.cfg.nodes[i].kind == 'act' for i in body)
            if not steps:
                continue
            for i in sorted(body):
                m = f.cfg.nodes[i]
                if m.kind == 'cond' and isinstance(m.ast, dict):
                    c = sub(expand(rd, m.id, m.ast))
                    if '->hash' in c or 'strcmp' in c or 'memcmp' in c:
                        ps.add(c.replace(' != ', ' == '))      # polarity-insensitive: how the test is branched on is free
        if depth < 2:
            for n in f.cfg.nodes:
                if n.id not in f.cfg.reachable or not isinstance(n.ast, dict) or n.kind == 'macro':
                    continue
                for call in walk(n.ast):
                    if call.get('kind') != 'CallExpr':
                        continue
                    for g in prog.callees(f.unit, call):
                        if getattr(g, 'body', None) is None or not g.static or g.unit.rel != UNIT:
                            continue
                        args = children(call)[1:]
                        s2 = {}
                        for p_, a in zip(g.params, args):
                            s2[p_.get('name')] = sub(expand(rd, n.id, a))
                        e2, p2 = collect(g, s2, depth + 1)
                        exprs |= e2
                        ps |= p2
        return exprs, ps
    for name in ('qhashtbl_put', 'qhashtbl_get', 'qhashtbl_remove'):
        idx_exprs[name], preds[name] = collect(fs[name], {})
    ref = idx_exprs['qhashtbl_put']
    for name, ex in idx_exprs.items():
        rep.instance('S1')
        ok = len(ex) == 1 and ex == ref and len(ref) == 1
        rep.oblige('S1', ok, {'function': name, 'slot_index': sorted(ex)})
        if not ok:
            rep.violation('S1', fs[name], fs[name].line, 'slot-index',
                          '%s indexes the slot array with %s but qhashtbl_put uses %s: a key is stored in one chain and '
                          'looked up in another' % (name, sorted(ex), sorted(ref)))
    # getnext resume index
    f = fs['qhashtbl_getnext']
    rd = ReachingDefs(f)
    rep.instance('S1')
    resume = set()
    for n in f.cfg.nodes:
        if isinstance(n.ast, dict) and n.kind != 'macro':
            for x in walk(n.ast):
                # the resume position: assigned to a local or handed to a slot-scanning helper
                if x.get('kind') == 'BinaryOperator' and x.get('opcode') == '=' and strip(children(x)[0]).get('kind') == 'DeclRefExpr' \
                        and '->hash' in canon(children(x)[1]):
                    resume.add(canon(children(x)[1]))
                elif x.get('kind') == 'VarDecl':
                    from .expr import var_init
                    if var_init(x) is not None and '->hash' in canon(var_init(x)):
                        resume.add(canon(var_init(x)))
                elif x.get('kind') == 'CallExpr':
                    for a in children(x)[1:]:
                        if '->hash' in canon(a) and '%' in canon(a):
                            resume.add(canon(a))
    want = None
    if len(ref) == 1:
        r = list(ref)[0]
        # put's index is (H(name) % tbl->range); the walk re-derives it from the stored hash of the cursor
        import re
        m = re.match(r'^\((.*) % (.*)\)$', r)
        if m:
            want = '(1 + (obj->hash %% %s))' % m.group(2)
    ok = want is not None and (want in resume or ('(%s + 1)' % want[5:-1]) in resume)
    rep.oblige('S1', ok, {'function': 'qhashtbl_getnext', 'resume_index': sorted(resume), 'expected': want})
    if not ok:
        rep.violation('S1', f, f.line, 'resume-index', 'the walk resumes at %s, expected %s (the slot after the cursor\'s own chain)'
                      % (sorted(resume), want))
    refp = preds['qhashtbl_put']
    for name, ps in preds.items():
        rep.instance('S2')
        ok = bool(ps) and ps == refp
        rep.oblige('S2', ok, {'function': name, 'predicate': sorted(ps)})
        if not ok:
            rep.violation('S2', fs[name], fs[name].line, 'match-predicate',
                          '%s matches a chain entry with %s but qhashtbl_put uses %s' % (name, sorted(ps), sorted(refp)))


def rule_s3(prog, rep, units, rid='S3'):
    """Predecessor-pointer unlink loops: every iteration that goes round again records the cursor as the
    new predecessor; the unlink writes the head when there is no predecessor and prev->next otherwise."""
    rep.rule(rid, 'in a chain-removal loop with a predecessor variable, every path back to the loop head assigns the predecessor '
                  'the cursor, and the unlink handles both the head and the interior case')
    for rel in units:
        for f in sorted(prog.funcs_in(rel), key=lambda x: x.line or 0):
            cfg = f.cfg
            for (head, loop) in cfg.loops:
                body = _loop_nodes(cfg, head)
                # cursor: variable advanced with C = C->next inside the loop
                cursors = set()
                for i in body:
                    m = cfg.nodes[i]
                    if isinstance(m.ast, dict) and m.kind == 'act':
                        for x in walk(m.ast):
                            if x.get('kind') == 'BinaryOperator' and x.get('opcode') == '=':
                                l, r = children(x)
                                lp = access_path(l)
                                rs = strip(r)
                                if lp and rs.get('kind') == 'MemberExpr' and rs.get('name') == 'next' and \
                                        access_path(children(rs)[0]) == lp:
                                    cursors.add(lp)
                if not cursors:
                    continue
                # predecessor: local P used in an unlink `P->next = C->next` inside the loop statement
                for c in sorted(cursors):
                    cands = set()
                    for x in walk(loop):
                        if x.get('kind') == 'BinaryOperator' and x.get('opcode') == '=' and canon(children(x)[1]) == '%s->next' % c:
                            l = strip(children(x)[0])
                            if l.get('kind') == 'MemberExpr' and l.get('name') == 'next':
                                bp = access_path(children(l)[0])
                                if bp and '->' not in bp and bp != c:
                                    cands.add(bp)
                    for p in sorted(cands):
                        assigns = []
                        for i in body:
                            m = cfg.nodes[i]
                            if isinstance(m.ast, dict) and m.kind == 'act':
                                for x in walk(m.ast):
                                    if x.get('kind') == 'BinaryOperator' and x.get('opcode') == '=':
                                        l, r = children(x)
                                        if access_path(r) == c and access_path(l) == p:
                                            assigns.append(m)
                        rep.instance(rid)
                        # the predecessor must be recorded before the cursor advances in that iteration
                        late = None
                        advs = []
                        for i in body:
                            m = cfg.nodes[i]
                            if isinstance(m.ast, dict) and m.kind == 'act':
                                order = []
                                for x in walk(m.ast):
                                    if x.get('kind') == 'BinaryOperator' and x.get('opcode') == '=':
                                        l, r = children(x)
                                        rs = strip(r)
                                        if access_path(l) == c and rs.get('kind') == 'MemberExpr' and rs.get('name') == 'next' \
                                                and access_path(children(rs)[0]) == c:
                                            order.append(('adv', x.get('_off') or 0))
                                        elif access_path(l) == p and access_path(r) == c:
                                            order.append(('rec', x.get('_off') or 0))
                                kinds = [k for (k, _o) in sorted(order, key=lambda t: t[1])]
                                if 'adv' in kinds:
                                    advs.append(m)
                                    if 'rec' in kinds and kinds.index('adv') < len(kinds) - 1 - kinds[::-1].index('rec'):
                                        late = m
                        if late is None:
                            for v in advs:
                                # a path advance -> record that does not pass the loop head
                                seen2 = set()
                                work2 = [s2 for (s2, _l) in v.succs]
                                while work2 and late is None:
                                    m2 = work2.pop()
                                    if m2 is head or m2.id in seen2 or m2.id not in body:
                                        continue
                                    seen2.add(m2.id)
                                    if any(m2 is a for a in assigns):
                                        late = m2
                                        break
                                    for (s2, _l) in m2.succs:
                                        work2.append(s2)
                        if late is not None:
                            rep.oblige(rid, False, {'function': f.name, 'cursor': c, 'predecessor': p})
                            rep.violation(rid, f, late.line, 'prev-late:%s' % p,
                                          '`%s = %s` at line %s executes after the cursor has already advanced in that iteration: %s is the '
                                          'cursor itself, not its predecessor, so the unlink corrupts the chain' % (p, c, late.line, p))
                            continue
                        aset = {m.id for m in assigns}
                        # a cycle head -> ... -> head avoiding every `P = C`
                        bad = _cycle_avoiding(cfg, head, body, aset)
                        # head case: some store of C->next into something that is not P->next, under P == NULL
                        headstore = any(
                            x.get('kind') == 'BinaryOperator' and x.get('opcode') == '=' and canon(children(x)[1]) == '%s->next' % c
                            and canon(children(x)[0]) != '%s->next' % p and access_path(children(x)[0]) != c
                            and strip(children(x)[0]).get('kind') != 'DeclRefExpr'
                            for x in walk(loop))
                        ok = bad is None and headstore
                        rep.oblige(rid, ok, {'function': f.name, 'cursor': c, 'predecessor': p, 'loop_line': head.line})
                        if bad is not None:
                            rep.violation(rid, f, head.line, 'prev:%s' % p,
                                          'the loop at line %s can go round without `%s = %s` (via line(s) %s): the next unlink '
                                          'through %s->next drops every entry between the stale predecessor and the victim '
                                          '(unreachable, never freed)' % (head.line, p, c,
                                                                          sorted({x.line for x in bad if x.line})[:6], p))
                        elif not headstore:
                            rep.violation(rid, f, head.line, 'head:%s' % p,
                                          'the unlink only writes %s->next: removing the first entry of the chain (no predecessor) '
                                          'is not handled' % p)


def _cycle_avoiding(cfg, head, body, avoid):
    seen = set()
    work = [(s, [s]) for (s, _l) in head.succs if s.id in body]
    while work:
        n, path = work.pop()
        if n is head:
            return path
        if n.id in seen or n.id in avoid or n.id not in body:
            continue
        seen.add(n.id)
        for (s, _l) in n.succs:
            work.append((s, path + [s]))
    return None


# ======================================================================================================
# Further chain-table clauses (added later): S4 insert-at-head protocol, S5 cursor refresh, S6 clear, and the
# string-equality component of the match predicate (reported under S2).

def rule_s2_strcmp(prog, rep, rid='S2'):
    """The chain-match predicate of each lookup contains an equality test of the entry's name string with the key (hash
    equality alone conflates colliding keys)."""
    for name in ('qhashtbl_put', 'qhashtbl_get', 'qhashtbl_remove'):
        f = prog.need_func(name)
        found = False
        scope = [f] + [g for x in walk(f.body) if x.get('kind') == 'CallExpr' for g in prog.callees(f.unit, x)
                       if getattr(g, 'body', None) is not None and g.static and g.unit.rel == UNIT]
        for g in scope:
            pnames = {p_.get('name') for p_ in g.params if 'char' in (qtype(p_) or '')}
            for x in walk(g.body):
                if x.get('kind') == 'CallExpr' and prog.callee_name(x) in ('strcmp', 'strncmp', 'memcmp'):
                    args = [canon(a) for a in children(x)[1:3]]
                    if prog.callee_name(x) == 'strcmp' and any(a.endswith('->name') for a in args) and any(a in pnames for a in args):
                        found = True
        rep.instance(rid)
        rep.oblige(rid, found, {'function': name, 'string_equality_on_key': found})
        if not found:
            rep.violation(rid, f, f.line, 'match-strcmp', '%s recognises a chain entry without comparing its name string with the key: '
                          'two keys with the same 32-bit hash are taken for one' % name)


def rule_s4(prog, rep, rid='S4'):
    """Insert-at-head: when a new node becomes the head of a chain, its `next` received the old head before the slot is
    overwritten - on every path on which the old head can be non-NULL."""
    from .own import propagate, node_events, cond_null_test
    rep.rule(rid, 'insert-at-head protocol: the new node\'s next link receives the old chain head before the slot is overwritten '
                  '(on every path on which the old head can be non-NULL)')
    f = prog.need_func('qhashtbl_put')
    stores = []

    def is_slot(e):
        s = strip_parens(e)
        return s.get('kind') == 'ArraySubscriptExpr' and canon(children(s)[0]).endswith('->slots')

    def transfer(n, st):
        if not isinstance(n.ast, dict) or n.kind == 'macro':
            return st
        s = set(st)
        for ev in node_events(n):
            if ev[0] != 'assign':
                continue
            lhs, rhs = ev[1], ev[2]
            l = strip_parens(lhs)
            if l.get('kind') == 'MemberExpr' and l.get('name') == 'next' and is_slot(strip(rhs)):
                s.add(('linked', canon(children(l)[0]), canon(strip(rhs))))
            elif is_slot(lhs):
                r = canon(strip(rhs))
                slot = canon(strip_parens(lhs))
                stores.append((n, ev[3], slot, r, ('linked', r, slot) in s, ('headnull', slot) in s))
        return frozenset(s)

    def branch(n, st, lab):
        if not isinstance(n.ast, dict):
            return st
        from .expr import is_null
        c = strip_parens(n.ast)
        t = None
        if c.get('kind') == 'BinaryOperator' and c.get('opcode') in ('==', '!='):
            a, b = children(c)
            for x, y in ((a, b), (b, a)):
                if is_slot(strip(x)) and is_null(y):
                    t = (canon(strip(x)), c.get('opcode') == '==')
        elif is_slot(strip(c)):
            t = (canon(strip(c)), False)
        if t:
            s = set(st)
            if (lab == 'T') == t[1]:
                s.add(('headnull', t[0]))
            return frozenset(s)
        return st
    propagate(f, frozenset(), transfer, branch)
    by = {}
    for (n, x, slot, r, linked, headnull) in stores:
        by.setdefault((x.get('_line'), slot, r), []).append(linked or headnull)
    if not by:
        from .frontend import AnalysisBroken
        raise AnalysisBroken('qhashtbl_put: no store into the slot array found')
    for (line, slot, r), oks in sorted(by.items()):
        rep.instance(rid)
        ok = all(oks)
        rep.oblige(rid, ok, {'function': f.name, 'line': line, 'store': '%s = %s' % (slot, r)})
        if not ok:
            rep.violation(rid, f, line, 'head-store:%s' % r, '%s = %s overwrites the chain head on a path on which %s->next has not '
                          'received the old head: the rest of the chain is lost (or the node links to itself)' % (slot, r, r))


def rule_s5_cursor(prog, rep, sites, rid='S5'):
    """Cursor refresh: a walk function delivers an element through a caller-provided cursor record and reads some fields of
    that record to find where to resume.  On every path on which it delivers (assigns the cursor's data), every resume field
    has been (re)assigned as well - a stale resume field makes the next call skip or repeat entries."""
    from .own import propagate, node_events
    rep.rule(rid, 'walk cursor refresh: on every path that delivers an element through the cursor, every cursor field the function '
                  'reads to resume the walk is re-assigned')
    for (unit, fname, pidx) in sites:
        f = prog.func(fname, unit)
        if f is None or f.body is None:
            continue
        if pidx >= len(f.params):
            continue
        cur = f.params[pidx].get('name')
        # fields of the cursor that are read (rvalue use outside free()/debug output)
        lhs_ids = set()
        freed = set()
        for x in walk(f.body):
            if x.get('kind') == 'BinaryOperator' and x.get('opcode') == '=':
                lhs_ids.add(id(strip_parens(children(x)[0])))
            if x.get('kind') == 'CallExpr' and prog.callee_name(x) in ('free', 'memset'):
                for a in children(x)[1:]:
                    for y in walk(a):
                        freed.add(id(y))
        resume = set()
        for x in walk(f.body):
            if x.get('kind') == 'MemberExpr' and x.get('isArrow') and canon(children(x)[0]) == cur \
                    and id(x) not in lhs_ids and id(x) not in freed:
                resume.add(x.get('name'))
        if not resume:
            continue

        def transfer(n, st):
            if not isinstance(n.ast, dict) or n.kind == 'macro':
                return st
            s = set(st)
            for ev in node_events(n):
                if ev[0] == 'assign':
                    l = strip_parens(ev[1])
                    if l.get('kind') == 'MemberExpr' and l.get('isArrow') and canon(children(l)[0]) == cur:
                        s.add(l.get('name'))
                    elif l.get('kind') == 'UnaryOperator' and l.get('opcode') == '*' and canon(children(l)[0]) == cur:
                        s |= set(resume) | {'data'}        # *cursor = *node : whole-record copy
            return frozenset(s)
        states, truncated = propagate(f, frozenset(), transfer)
        for r in f.cfg.returns():
            if isinstance(r.ast, dict) and children(r.ast) and int_value(children(r.ast)[0]) == 0:
                continue          # `return false/NULL`: a failure exit delivers nothing
            for st in states.get(r.id, ()):
                if 'data' not in st:
                    continue
                rep.instance(rid)
                missing = sorted(resume - set(st))
                rep.oblige(rid, not missing, {'function': fname, 'return_line': r.line, 'resume_fields': sorted(resume)})
                if missing:
                    rep.violation(rid, f, r.line, 'stale:%s' % ','.join(missing),
                                  '%s delivers an element through %s but leaves %s->%s as the previous call left it: the function '
                                  'reads that field to resume, so the next call skips or repeats entries' % (fname, cur, cur, ', '.join(missing)))
                    break


def rule_s6_clear(prog, rep, rid='S6'):
    """clear(): every chain whose nodes are freed is detached from its slot (slot set to NULL), and the slot scan is bounded by
    the table range only together with the count (no slot can be skipped while entries remain)."""
    rep.rule(rid, 'clear detaches every chain it frees: the slot is reset to NULL in the iteration that frees its nodes')
    f = prog.need_func('qhashtbl_clear')
    loops = [x for x in walk(f.body) if x.get('kind') in ('ForStmt', 'WhileStmt')]
    frees_node = False
    resets = False
    for x in walk(f.body):
        if x.get('kind') == 'BinaryOperator' and x.get('opcode') == '=':
            l = strip_parens(children(x)[0])
            if l.get('kind') == 'ArraySubscriptExpr' and canon(children(l)[0]).endswith('->slots'):
                from .expr import is_null
                if is_null(children(x)[1]):
                    resets = True
        if x.get('kind') == 'CallExpr' and prog.callee_name(x) == 'free':
            frees_node = True
    whole = any(x.get('kind') == 'CallExpr' and prog.callee_name(x) == 'memset' and '->slots' in canon(children(x)[1]) for x in walk(f.body))
    rep.instance(rid)
    ok = (not frees_node) or resets or whole
    rep.oblige(rid, ok, {'function': f.name, 'slot_reset': resets or whole})
    if not ok:
        rep.violation(rid, f, f.line, 'slot-reset', 'clear() frees the chain nodes but leaves the slot pointing at them: every later '
                      'lookup in that slot walks freed memory')


def rule_s7_fresh_cursor(prog, rep, sites, rid='S7'):
    """The walk tells a fresh cursor from one in use by testing cursor fields.  A cursor that has delivered an element must never
    look fresh, so the test has to involve a field that is non-zero after every delivery: the entry's name pointer (a key is
    never NULL) - the stored hash can be 0 and the next link is NULL at the end of a chain."""
    from .own import MUST_NONNULL
    rep.rule(rid, 'the walk recognises a cursor in use by a field that is non-zero after every delivery (the name pointer): a '
                  'hash of 0 or a NULL next link must not make a used cursor look fresh')
    nonnull_fields = {k[1] for k in MUST_NONNULL if k[1] == 'name'} | {'name'}
    for (unit, fname, pidx) in sites:
        f = prog.func(fname, unit)
        if f is None or f.body is None or pidx >= len(f.params):
            continue
        cur = f.params[pidx].get('name')
        # the `if` that guards the resume-position assignment (an assignment whose right side reads a cursor field)
        for x in walk(f.body):
            if x.get('kind') != 'IfStmt':
                continue
            ch = children(x)
            resumes = any(y.get('kind') == 'BinaryOperator' and y.get('opcode') == '=' and strip(children(y)[0]).get('kind') == 'DeclRefExpr'
                          and any(z.get('kind') == 'MemberExpr' and z.get('isArrow') and canon(children(z)[0]) == cur for z in walk(children(y)[1]))
                          for y in walk(ch[1]))
            if not resumes:
                continue
            tested = {z.get('name') for z in walk(ch[0]) if z.get('kind') == 'MemberExpr' and z.get('isArrow') and canon(children(z)[0]) == cur}
            if not tested:
                continue
            rep.instance(rid)
            ok = bool(tested & nonnull_fields)
            rep.oblige(rid, ok, {'function': fname, 'line': x.get('_line'), 'tested_cursor_fields': sorted(tested)})
            if not ok:
                rep.violation(rid, f, x.get('_line'), 'fresh-test:%s' % ','.join(sorted(tested)),
                              'a cursor in use is recognised by %s->{%s} only: an entry whose fields are all zero there (hash 0, end of '
                              'chain) makes the cursor look fresh and the walk starts over' % (cur, ', '.join(sorted(tested))))
            break
