"""Termination clauses for the parser / decoder units (C17).

LP1  no stationary cycle.  A cycle of a loop on which nothing changes that any condition of the loop reads repeats for ever
     once it is taken: every cycle through a loop head must pass a node that writes a variable some condition of the loop
     reads (or, where the conditions read memory, a store through a pointer), or a call that is not known to be pure.
     Path conditions are tracked while searching (the same test cannot come out both ways on one stationary cycle).
     This is a sufficient condition for non-termination, so a report is a real hang; it is not a termination proof.

LP2  rewrite-until-fixpoint loops carry a budget.  A loop that replaces the buffer it scans by a text computed from that
     buffer (`s = replace(value, ...); value = s`) and starts scanning it from the beginning again terminates only if the
     rewriting reaches a fixed point - which input can prevent (`b=${a}`, `a=${b}`, `c=${a}`).  Such a loop must be
     bounded by construction: every cycle through the rewrite passes a strictly monotone update of an integer budget
     variable, and a comparison of that variable has an edge from which the rewrite cannot be reached again.
"""
from .frontend import walk, children, strip, strip_parens, qtype
from .expr import canon, access_path, int_value, var_init
from .hashrules import _loop_nodes

PURE = {'strlen', 'strcmp', 'strncmp', 'strcasecmp', 'strncasecmp', 'memcmp', 'strchr', 'strrchr', 'strstr', 'strpbrk',
        'strspn', 'strcspn', 'isspace', 'isdigit', 'isalpha', 'isalnum', 'isxdigit', 'isupper', 'islower', 'isprint',
        'tolower', 'toupper', 'abs', '__ctype_b_loc', '__ctype_tolower_loc', '__ctype_toupper_loc', '__errno_location',
        '__builtin_expect', 'qstrupper_pure'}


def _reads(e):
    """(set of variable names read, reads memory through a pointer?)"""
    names, mem = set(), False
    for x in walk(e):
        k = x.get('kind')
        if k == 'DeclRefExpr' and (x.get('_ref') or ('',))[0] in ('local', 'param', 'global', 'static'):
            names.add(canon(x))
        elif k == 'DeclRefExpr' and x.get('_ref') and x['_ref'][0] not in ('fn',):
            names.add(canon(x))
        if k in ('ArraySubscriptExpr',) or (k == 'UnaryOperator' and x.get('opcode') == '*') or (k == 'MemberExpr' and x.get('isArrow')):
            mem = True
    return names, mem


def _writes(prog, n, pure_helpers=()):
    """(set of variable names written directly, writes memory?, calls something impure?) for CFG node n"""
    names, mem, impure = set(), False, False
    a = n.ast
    if not isinstance(a, dict):
        return names, mem, impure
    if n.kind == 'macro':
        return names, True, True
    if a.get('kind') == 'VarDecl':
        names.add(a.get('name'))
    for x in walk(a):
        k = x.get('kind')
        tgt = None
        if k == 'BinaryOperator' and x.get('opcode') == '=':
            tgt = children(x)[0]
        elif k == 'CompoundAssignOperator' or (k == 'UnaryOperator' and x.get('opcode') in ('++', '--')):
            tgt = children(x)[0]
        elif k == 'VarDecl':
            names.add(x.get('name'))
        elif k == 'CallExpr':
            nm = prog.callee_name(x)
            if nm not in PURE and nm not in pure_helpers:
                impure = True
        if tgt is not None:
            t = strip_parens(strip(tgt))
            if t.get('kind') == 'DeclRefExpr':
                names.add(canon(t))
            else:
                mem = True
                # the base variable of a field store `s.f = ...` is a direct write
                b = t
                while b.get('kind') == 'MemberExpr' and not b.get('isArrow'):
                    b = strip(children(b)[0])
                if b.get('kind') == 'DeclRefExpr':
                    names.add(canon(b))
    return names, mem, impure


def _pure_helpers(prog, units):
    """static functions of the units without stores through pointers, without static/global writes and without impure calls"""
    out = set()
    changed = True
    while changed:
        changed = False
        for u in units:
            for f in prog.funcs_in(u):
                if f.body is None or f.name in out:
                    continue
                ok = True
                locs = {x.get('name') for x in walk(f.decl) if x.get('kind') in ('VarDecl', 'ParmVarDecl')}
                for x in walk(f.body):
                    k = x.get('kind')
                    tgt = None
                    if k == 'BinaryOperator' and x.get('opcode') == '=':
                        tgt = children(x)[0]
                    elif k == 'CompoundAssignOperator' or (k == 'UnaryOperator' and x.get('opcode') in ('++', '--')):
                        tgt = children(x)[0]
                    elif k == 'CallExpr':
                        nm = prog.callee_name(x)
                        if nm not in PURE and nm not in out:
                            ok = False
                            break
                    if tgt is not None:
                        t = strip_parens(strip(tgt))
                        if t.get('kind') != 'DeclRefExpr' or canon(t) not in locs:
                            ok = False
                            break
                if ok:
                    out.add(f.name)
                    changed = True
    return out


def _norm_cond(c):
    """(canonical text, polarity) of a condition so that `a != b` and `a == b` share a key"""
    c = strip_parens(c)
    if c.get('kind') == 'BinaryOperator' and c.get('opcode') == '!=':
        a, b = children(c)
        return '(%s == %s)' % tuple(sorted((canon(a), canon(b)))), False
    if c.get('kind') == 'BinaryOperator' and c.get('opcode') == '==':
        a, b = children(c)
        return '(%s == %s)' % tuple(sorted((canon(a), canon(b)))), True
    if c.get('kind') == 'UnaryOperator' and c.get('opcode') == '!':
        t, p = _norm_cond(children(c)[0])
        return t, not p
    return canon(c), True


def rule_lp1(prog, rep, units, rid='LP1'):
    rep.rule(rid, 'no stationary cycle: every cycle through a loop head passes a write to something a condition of the loop reads, '
                  'or an impure call (a cycle on which nothing the conditions read changes repeats for ever)')
    pure_helpers = _pure_helpers(prog, units)
    rep.notes['pure_helpers'] = sorted(pure_helpers)
    for u in units:
        prog.unit(u)
        for f in sorted(prog.funcs_in(u), key=lambda x: x.line or 0):
            if f.body is None:
                continue
            cfg = f.cfg
            for (head, stmt) in cfg.loops:
                if head.id not in cfg.reachable:
                    continue
                body = _natural_body(cfg, head, stmt)
                rep.instance(rid)
                cvars, cmem = set(), False
                for i in body:
                    m = cfg.nodes[i]
                    if m.kind in ('cond', 'switch') and isinstance(m.ast, dict):
                        nm, mem = _reads(m.ast)
                        cvars |= nm
                        cmem = cmem or mem
                relevant = set()
                for i in body:
                    m = cfg.nodes[i]
                    nm, mem, impure = _writes(prog, m, pure_helpers)
                    if impure or (nm & cvars) or (mem and cmem):
                        relevant.add(i)
                # search a cycle head -> head through irrelevant nodes with consistent path conditions
                bad = None
                seen = set()
                work = [(s, lab, head, frozenset(), [head]) for (s, lab) in head.succs]
                while work and bad is None:
                    m, lab, frm, pc, path = work.pop()
                    if frm.kind == 'cond' and isinstance(frm.ast, dict) and lab in ('T', 'F'):
                        t, pol = _norm_cond(frm.ast)
                        val = (lab == 'T') == pol
                        if (t, not val) in pc:
                            continue
                        pc = pc | {(t, val)}
                    if m is head:
                        bad = path
                        break
                    if m.id not in body or m.id in relevant or (m.id, pc) in seen or len(pc) > 12:
                        continue
                    seen.add((m.id, pc))
                    for (s, l2) in m.succs:
                        work.append((s, l2, m, pc, path + [m]))
                ok = bad is None
                rep.oblige(rid, ok, {'function': f.name, 'loop_line': head.line} if not ok else None)
                if not ok:
                    rep.violation(rid, f, head.line, 'loop:%s' % head.line,
                                  '%s: the loop at line %s has a cycle on which nothing changes that its conditions read (%s): once taken '
                                  'it repeats for ever' % (f.name, head.line, ' -> '.join(str(p.line) for p in bad if p.line)),
                                  path=['%s:%s' % (f.relfile, p.line) for p in bad if p.kind in ('cond', 'act')][:20])


def rule_lp2(prog, rep, units, rid='LP2'):
    rep.rule(rid, 'a loop that rewrites the buffer it scans from a text computed from that buffer and scans it again is bounded by '
                  'construction: every cycle through the rewrite passes a monotone update of a budget variable whose test has an edge '
                  'from which the rewrite is not reachable again')
    for u in units:
        prog.unit(u)
        for f in sorted(prog.funcs_in(u), key=lambda x: x.line or 0):
            if f.body is None:
                continue
            cfg = f.cfg
            for (head, stmt) in cfg.loops:
                if head.id not in cfg.reachable:
                    continue
                body = _natural_body(cfg, head, stmt)
                # results of calls taking buffer B: {result variable: B}
                derived = {}
                for i in body:
                    m = cfg.nodes[i]
                    if not isinstance(m.ast, dict) or m.kind == 'macro':
                        continue
                    for x in walk(m.ast):
                        lhs = rhs = None
                        if x.get('kind') == 'BinaryOperator' and x.get('opcode') == '=':
                            lhs, rhs = canon(children(x)[0]), strip(children(x)[1])
                        elif x.get('kind') == 'VarDecl' and var_init(x) is not None:
                            lhs, rhs = x.get('name'), strip(var_init(x))
                        if rhs is not None and rhs.get('kind') == 'CallExpr' and prog.callee_name(rhs) not in PURE:
                            for a in children(rhs)[1:]:
                                sa = strip(a)
                                if sa.get('kind') == 'DeclRefExpr' and (qtype(sa) or '').rstrip().endswith('*') and 'char' in (qtype(sa) or ''):
                                    derived.setdefault(lhs, set()).add(canon(sa))
                def rhs_value(e):
                    e = strip(e)
                    while e.get('kind') == 'BinaryOperator' and e.get('opcode') == '=':      # a = b = c
                        e = strip(children(e)[1])
                    return e
                freed = set()
                for i in body:
                    m = cfg.nodes[i]
                    if isinstance(m.ast, dict) and m.kind != 'macro':
                        for y in walk(m.ast):
                            if y.get('kind') == 'CallExpr' and prog.callee_name(y) in ('free', 'realloc') and len(children(y)) > 1:
                                freed.add(canon(children(y)[1]))
                rewrites = []
                for i in body:
                    m = cfg.nodes[i]
                    if not isinstance(m.ast, dict) or m.kind == 'macro':
                        continue
                    for x in walk(m.ast):
                        if x.get('kind') == 'BinaryOperator' and x.get('opcode') == '=':
                            b = canon(children(x)[0])
                            r = rhs_value(children(x)[1])
                            src = None
                            if r.get('kind') == 'DeclRefExpr' and b in derived.get(canon(r), ()):
                                src = canon(r)
                            elif r.get('kind') == 'CallExpr' and b in derived.get(b, ()):
                                src = b
                            # the old text is discarded: a cursor moved by a scanning helper (`s = scan(s)`) is not a rewrite
                            if src is not None and b in freed:
                                rewrites.append((m, x, b, src))
                if not rewrites:
                    continue
                for (rw, x, buf, src) in rewrites:
                    # the scan restarts from the buffer's beginning inside the loop: a cursor other than the buffer variable
                    # receives the buffer or the new text
                    restarts = any(isinstance(cfg.nodes[i].ast, dict) and cfg.nodes[i].kind != 'macro' and any(
                        y.get('kind') == 'BinaryOperator' and y.get('opcode') == '=' and canon(children(y)[0]) != buf
                        and canon(rhs_value(children(y)[1])) in (buf, src) and canon(children(y)[0]) != src
                        for y in walk(cfg.nodes[i].ast)) for i in body)
                    if not restarts:
                        # `cursor = replace(B, ...); B = cursor`: the cursor the loop condition reads is the new buffer's start
                        restarts = src != buf and any(cfg.nodes[i].kind == 'cond' and isinstance(cfg.nodes[i].ast, dict) and
                                                     src in _reads(cfg.nodes[i].ast)[0] for i in body)
                    if not restarts:
                        continue
                    # innermost loop only: skip when an inner loop also contains the rewrite and the restart
                    rep.instance(rid)
                    # budget candidates: integer locals updated monotonically in the loop and compared in the loop
                    cands = {}
                    for i in body:
                        m = cfg.nodes[i]
                        if not isinstance(m.ast, dict) or m.kind == 'macro':
                            continue
                        for y in walk(m.ast):
                            k = y.get('kind')
                            if (k == 'UnaryOperator' and y.get('opcode') in ('++', '--')) or \
                                    (k == 'CompoundAssignOperator' and y.get('opcode') in ('+=', '-=')):
                                t = strip(children(y)[0])
                                if t.get('kind') == 'DeclRefExpr' and not (qtype(t) or '').rstrip().endswith('*'):
                                    if k == 'CompoundAssignOperator' and not _positive(children(y)[1]):
                                        continue
                                    cands.setdefault(canon(t), set()).add(i)
                    # a budget kept by a helper: `charge(&budget, ...)` where the static helper updates *param monotonically and
                    # returns a comparison of it with a constant; the call is the update, the test of its result is the test
                    helper_tests = {}
                    for i in body:
                        m = cfg.nodes[i]
                        if not isinstance(m.ast, dict) or m.kind == 'macro':
                            continue
                        for y in walk(m.ast):
                            if y.get('kind') != 'CallExpr':
                                continue
                            g = prog.resolve_name(f.unit, prog.callee_name(y)) if prog.callee_name(y) else None
                            if g is None or getattr(g, 'body', None) is None or not getattr(g, 'static', False):
                                continue
                            for k, a in enumerate(children(y)[1:]):
                                sa = strip(a)
                                if sa.get('kind') == 'UnaryOperator' and sa.get('opcode') == '&' and k < len(g.params) and \
                                        strip(children(sa)[0]).get('kind') == 'DeclRefExpr' and _budget_helper(g, g.params[k].get('name')):
                                    c = canon(children(sa)[0])
                                    cands.setdefault(c, set()).add(i)
                                    helper_tests.setdefault(c, set()).add(i)
                    ok, why = False, 'no integer budget variable is updated in the loop'
                    for c, upd in sorted(cands.items()):
                        # every cycle head -> rewrite -> head passes an update of c
                        if _cycle_through(cfg, head, body, rw, avoid=upd):
                            why = 'a cycle through the rewrite does not update %s' % c
                            continue
                        # a comparison of c with an edge from which the rewrite is unreachable
                        exits = False
                        for i in body:
                            m = cfg.nodes[i]
                            if m.kind != 'cond' or not isinstance(m.ast, dict):
                                continue
                            cc = strip_parens(m.ast)
                            if cc.get('kind') != 'BinaryOperator' or cc.get('opcode') not in ('<', '<=', '>', '>=', '==', '!='):
                                continue
                            if c not in [canon(strip(z)) for z in walk(cc) if z.get('kind') == 'DeclRefExpr']:
                                continue
                            for (s, lab) in m.succs:
                                if not _reaches(cfg, s, rw):
                                    exits = True
                        # the test of a budget helper's result (the cond node holding the call, or testing the variable it was assigned to)
                        for i in helper_tests.get(c, ()):
                            m = cfg.nodes[i]
                            tests = [m] if m.kind == 'cond' else []
                            if m.kind != 'cond' and isinstance(m.ast, dict):
                                rv = m.ast.get('name') if m.ast.get('kind') == 'VarDecl' else None
                                for z in walk(m.ast):
                                    if z.get('kind') == 'BinaryOperator' and z.get('opcode') == '=' and strip(children(z)[1]).get('kind') == 'CallExpr':
                                        rv = canon(children(z)[0])
                                if rv:
                                    tests = [cfg.nodes[j] for j in body if cfg.nodes[j].kind == 'cond' and isinstance(cfg.nodes[j].ast, dict)
                                             and rv in _reads(cfg.nodes[j].ast)[0]]
                            for t in tests:
                                for (s, lab) in t.succs:
                                    if not _reaches(cfg, s, rw):
                                        exits = True
                        for i in ():
                            m = cfg.nodes[i]
                            for (s, lab) in m.succs:
                                if not _reaches(cfg, s, rw):
                                    exits = True
                        if exits:
                            ok, why = True, 'budget %s' % c
                            break
                        why = 'no test of %s leaves the loop for good' % c
                    rep.oblige(rid, ok, {'function': f.name, 'buffer': buf, 'rewrite_line': x.get('_line'), 'how': why})
                    if not ok:
                        rep.violation(rid, f, x.get('_line'), 'rewrite:%s' % buf,
                                      '%s: the loop at line %s replaces %s by a text computed from it (line %s) and scans it again from the '
                                      'start, but is not bounded by construction (%s): input whose rewriting never reaches a fixed point '
                                      '(self- or mutually-referential references) makes it run for ever'
                                      % (f.name, head.line, buf, x.get('_line'), why))


def rule_lp3(prog, rep, units, rid='LP3'):
    """After a buffer was replaced by a rewritten text, a cursor into the NEW text is either its start or the result of a
    search in the new text.  `cursor = newtext + k` with a k that is not a constant (an offset measured in the old text, a
    length of something else) may lie beyond the new terminator - replacing ALL occurrences can shorten the text in front of
    the remembered position - unless k was compared with the new text's length."""
    rep.rule(rid, 'inside a rewrite-and-rescan loop a cursor into the new text is its start or a search result, not new text + an offset '
                  'carried over from the old text')
    for u in units:
        prog.unit(u)
        for f in sorted(prog.funcs_in(u), key=lambda x: x.line or 0):
            if f.body is None:
                continue
            cfg = f.cfg
            for (head, stmt) in cfg.loops:
                if head.id not in cfg.reachable:
                    continue
                body = _natural_body(cfg, head, stmt)
                freed, news = set(), set()
                for i in body:
                    m = cfg.nodes[i]
                    if not isinstance(m.ast, dict) or m.kind == 'macro':
                        continue
                    for y in walk(m.ast):
                        if y.get('kind') == 'CallExpr' and prog.callee_name(y) == 'free' and len(children(y)) > 1:
                            freed.add(canon(children(y)[1]))
                for i in body:
                    m = cfg.nodes[i]
                    if not isinstance(m.ast, dict) or m.kind == 'macro':
                        continue
                    for y in walk(m.ast):
                        lhs = rhs = None
                        if y.get('kind') == 'BinaryOperator' and y.get('opcode') == '=':
                            lhs, rhs = canon(children(y)[0]), strip(children(y)[1])
                        elif y.get('kind') == 'VarDecl' and var_init(y) is not None:
                            lhs, rhs = y.get('name'), strip(var_init(y))
                        if rhs is not None and rhs.get('kind') == 'CallExpr' and prog.callee_name(rhs) not in PURE and \
                                any(canon(a) in freed for a in children(rhs)[1:]):
                            news.add(lhs)           # the rewritten text
                if not news:
                    continue
                # buffer variables that receive the new text
                bufs = set(news)
                for i in body:
                    m = cfg.nodes[i]
                    if isinstance(m.ast, dict) and m.kind != 'macro':
                        for y in walk(m.ast):
                            if y.get('kind') == 'BinaryOperator' and y.get('opcode') == '=' and canon(children(y)[1]) in news:
                                bufs.add(canon(children(y)[0]))
                for i in sorted(body):
                    m = cfg.nodes[i]
                    if not isinstance(m.ast, dict) or m.kind == 'macro':
                        continue
                    for y in walk(m.ast):
                        if not (y.get('kind') == 'BinaryOperator' and y.get('opcode') == '='):
                            continue
                        r = strip(children(y)[1])
                        if r.get('kind') == 'BinaryOperator' and r.get('opcode') == '+':
                            a, b = [strip(z) for z in children(r)]
                            for (base, off) in ((a, b), (b, a)):
                                if canon(base) in bufs and int_value(off) is None and (qtype(base) or '').rstrip().endswith('*') and any(
                                        z.get('kind') == 'DeclRefExpr' and (z.get('_ref') or ('',))[0] in ('local', 'param') for z in walk(off)):
                                    rep.instance(rid)
                                    # guarded by a comparison of the offset with strlen(new text)?
                                    guarded = any(isinstance(cfg.nodes[j].ast, dict) and cfg.nodes[j].kind == 'cond' and
                                                  canon(off) in canon(cfg.nodes[j].ast) and 'strlen(' in canon(cfg.nodes[j].ast) for j in body)
                                    rep.oblige(rid, guarded, {'function': f.name, 'cursor': canon(y)[:60]})
                                    if not guarded:
                                        rep.violation(rid, f, y.get('_line'), 'stale-offset:%s' % canon(off)[:20],
                                                      '%s: %s positions a cursor in the rewritten text %s at the offset %s, which is not '
                                                      'compared with the new text\'s length: when the rewrite shortened the text in front of it '
                                                      'the cursor lies beyond the terminator' % (f.name, canon(y)[:60], canon(base), canon(off)))


def _natural_body(cfg, head, stmt):
    """ids of the CFG nodes of the loop statement itself (not of the loops around it)"""
    scc = _loop_nodes(cfg, head)
    inside = {id(x) for x in walk(stmt)}
    out = {head.id}
    for i in scc:
        m = cfg.nodes[i]
        if isinstance(m.ast, dict) and id(m.ast) in inside:
            out.add(i)
        elif not isinstance(m.ast, dict) and m is not head and m.kind == 'join':
            # joins carry no AST: keep those whose predecessors and successors are inside (resolved below)
            out.add(i)
    # drop joins that belong to an enclosing loop: keep only nodes on a cycle through head within `out`
    fwd, work = set(), [head]
    while work:
        m = work.pop()
        if m.id in fwd or m.id not in out:
            continue
        fwd.add(m.id)
        work += [s for (s, _l) in m.succs]
    bwd, work = set(), [head]
    while work:
        m = work.pop()
        if m.id in bwd or m.id not in out:
            continue
        bwd.add(m.id)
        work += [p_ for (p_, _l) in m.preds]
    return fwd & bwd


def _budget_helper(g, pname):
    """g updates *pname monotonically (+= positive, ++) and compares it with a constant (in a condition or its return value)"""
    upd = cmpc = False
    for y in walk(g.body):
        k = y.get('kind')
        if (k == 'CompoundAssignOperator' and y.get('opcode') == '+=') or (k == 'UnaryOperator' and y.get('opcode') == '++'):
            t = strip(children(y)[0])
            if t.get('kind') == 'UnaryOperator' and t.get('opcode') == '*' and canon(children(t)[0]) == pname:
                if k == 'UnaryOperator' or _positive(children(y)[1]):
                    upd = True
        if k == 'BinaryOperator' and y.get('opcode') in ('<', '<=', '>', '>='):
            a, b = children(y)
            for (p_, q) in ((a, b), (b, a)):
                sp = strip(p_)
                if sp.get('kind') == 'UnaryOperator' and sp.get('opcode') == '*' and canon(children(sp)[0]) == pname and int_value(q) is not None:
                    cmpc = True
    return upd and cmpc


def _positive(e):
    """the added amount is provably >= 1: a positive literal, or an unsigned expression plus a positive literal"""
    v = int_value(e)
    if v is not None:
        return v >= 1
    s = strip(e)
    if s.get('kind') == 'BinaryOperator' and s.get('opcode') == '+':
        a, b = children(s)
        for (p, q) in ((a, b), (b, a)):
            if int_value(p) is not None and int_value(p) >= 1 and 'unsigned' in (qtype(strip(q)) or '') + (strip(q).get('type', {}).get('desugaredQualType') or ''):
                return True
            if int_value(p) is not None and int_value(p) >= 1 and (qtype(strip(q)) or '').startswith('size_t'):
                return True
    return False


def _cycle_through(cfg, head, body, via, avoid):
    """is there a cycle head -> via -> head inside body that avoids the nodes `avoid`?"""
    def reach(src, dst):
        seen, work = set(), [s for (s, _l) in src.succs]
        while work:
            m = work.pop()
            if m is dst:
                return True
            if m.id in seen or m.id not in body or m.id in avoid:
                continue
            seen.add(m.id)
            work += [s for (s, _l) in m.succs]
        return False
    if via.id in avoid:
        return False
    return (via is head or reach(head, via)) and reach(via, head)


def _reaches(cfg, src, dst):
    seen, work = set(), [src]
    while work:
        m = work.pop()
        if m is dst:
            return True
        if m.id in seen:
            continue
        seen.add(m.id)
        work += [s for (s, _l) in m.succs]
    return False


def rule_lp4(prog, rep, units, rid='LP4'):
    """Recursion driven by the input's nesting.  A function of the parser units that (directly or through other functions of
    the unit) calls itself descends once per nesting level of the input; its stack use is therefore controlled by the
    input unless the descent is bounded.  Every path from the function's entry to the recursive call must pass a comparison
    of a per-level quantity (something reachable from a parameter, or a local derived from one) with a constant, one of
    whose edges cannot reach the recursive call."""
    rep.rule(rid, 'a recursive descent of the parser units is bounded: every path to the recursive call passes a test of a per-level '
                  'quantity against a constant, one edge of which does not reach the call')
    for u in units:
        prog.unit(u)
        funcs = {f.name: f for f in prog.funcs_in(u) if f.body is not None}
        calls = {nm: {prog.callee_name(y) for y in walk(f.body) if y.get('kind') == 'CallExpr'} & set(funcs) for nm, f in funcs.items()}

        def reaches(a, b):
            seen, work = set(), [a]
            while work:
                x = work.pop()
                for c in calls.get(x, ()):
                    if c == b:
                        return True
                    if c not in seen:
                        seen.add(c)
                        work.append(c)
            return False
        for nm, f in sorted(funcs.items(), key=lambda kv: kv[1].line or 0):
            if not reaches(nm, nm):
                continue
            cfg = f.cfg
            pnames = {p.get('name') for p in f.params}
            # locals derived from parameters (one step is enough for `level = parent->level + 1` style records)
            derived = set(pnames)
            for y in walk(f.body):
                if y.get('kind') == 'BinaryOperator' and y.get('opcode') == '=':
                    if _reads(children(y)[1])[0] & derived:
                        b = strip(children(y)[0])
                        while b.get('kind') == 'MemberExpr':
                            b = strip(children(b)[0])
                        if b.get('kind') == 'DeclRefExpr':
                            derived.add(canon(b))
            # ... and records filled in by a helper that also receives a per-level value (`_init_cbdata(cbdata, id, parent)`)
            for _round in range(2):
                for y in walk(f.body):
                    if y.get('kind') == 'CallExpr' and prog.callee_name(y) in funcs:
                        args = children(y)[1:]
                        if any(_reads(a)[0] & derived for a in args):
                            for a in args:
                                sa = strip(a)
                                if sa.get('kind') == 'UnaryOperator' and sa.get('opcode') == '&':
                                    sa = strip(children(sa)[0])
                                if sa.get('kind') == 'DeclRefExpr' and (sa.get('_ref') or ('',))[0] == 'local' and \
                                        ((qtype(sa) or '').rstrip().endswith('*') or sa is not strip(a)):
                                    derived.add(canon(sa))
            rec = [n for n in cfg.nodes if n.id in cfg.reachable and isinstance(n.ast, dict) and n.kind != 'macro' and any(
                y.get('kind') == 'CallExpr' and prog.callee_name(y) in funcs and
                (prog.callee_name(y) == nm or reaches(prog.callee_name(y), nm)) for y in walk(n.ast))]
            for r in rec:
                rep.instance(rid)

                def gate(m, lab):
                    """edge (m, lab) is the passing edge of a depth test: the other edge cannot reach r"""
                    if m.kind != 'cond' or not isinstance(m.ast, dict):
                        return False
                    c = strip_parens(m.ast)
                    if c.get('kind') != 'BinaryOperator' or c.get('opcode') not in ('<', '<=', '>', '>='):
                        return False                 # a limit is an ordering test (NULL / flag / zero tests are not depth bounds)
                    a, b = children(c)
                    va, vb = int_value(a), int_value(b)
                    var = b if va is not None else (a if vb is not None else None)
                    lim = va if va is not None else vb
                    if var is None or not isinstance(lim, int) or lim < 2 or not (_reads(var)[0] & derived):
                        return False
                    if (qtype(strip(var)) or '').rstrip().endswith('*'):
                        return False
                    others = [(s, l2) for (s, l2) in m.succs if l2 != lab]
                    if not others:
                        return False
                    # feasibility-aware (flag locals such as `exception = true` decide the loop condition they guard)
                    from .hasharr import _path_avoiding
                    for (s, l2) in others:
                        if s is r or _path_avoiding(cfg, m, lambda k: False, skip_edge=lambda k, l3: k is m and l3 != l2, target=r):
                            return False
                    return True
                # a path entry -> r that passes no gate
                seen, work, bad = set(), [cfg.entry], None
                while work and bad is None:
                    m = work.pop()
                    if m.id in seen:
                        continue
                    seen.add(m.id)
                    if m is r:
                        bad = m
                        break
                    for (s, lab) in m.succs:
                        if gate(m, lab):
                            continue
                        work.append(s)
                rep.oblige(rid, bad is None, {'function': nm, 'recursive_call_line': r.line})
                if bad is not None:
                    rep.violation(rid, f, r.line, 'recursion:%s' % nm,
                                  '%s descends into itself at line %s once per nesting level of the input without any bound on the depth: a '
                                  'deeply nested document exhausts the stack (every level keeps its locals, e.g. a line buffer, alive)'
                                  % (nm, r.line))
