"""Engine C: allocation, ownership and destruction (C11: M2/M3; C15: A1/A2/A3)."""
import collections
from .frontend import walk, children, strip, strip_parens, qtype, Ext
from .expr import canon, access_path, is_null, var_init, root_var, int_value as int_value_

ALLOCATORS = {'malloc', 'calloc', 'realloc', 'strdup', 'strndup', 'qmemdup', 'qstrdupf'}
FREE = 'free'
MAX_STATES = 300

# libc / pthread parameters that are dereferenced without a NULL test (index list)
NONNULL_ARGS = {
    'memcpy': (0, 1), 'memmove': (0, 1), 'memset': (0,), 'strlen': (0,), 'strcpy': (0, 1), 'strncpy': (0, 1),
    'strcmp': (0, 1), 'strncmp': (0, 1), 'strcasecmp': (0, 1), 'strcat': (0, 1), 'strchr': (0,), 'strstr': (0, 1),
    'pthread_mutex_init': (0,), 'pthread_mutex_lock': (0,), 'pthread_mutex_unlock': (0,), 'atoll': (0,),
    'atoi': (0,), 'sprintf': (0,), 'snprintf': (0,), 'vsnprintf': (0,), 'fputs': (0,), 'strtok': (1,),
    'qstrtrim': (0,), 'qstrtok': (0,), 'strpbrk': (0, 1), 'fwrite': (0,),
}


# --------------------------------------------------------------------------------------
# event extraction

def node_events(n):
    """Ordered primitive events of a CFG node: ('call', expr) ('assign', lhs, rhs, expr)
    ('decl', vardecl, init) ('deref', baseexpr, expr)."""
    out = []
    a = n.ast
    if not isinstance(a, dict):
        return out
    if n.kind == 'macro':
        return out

    def rec(x, is_lhs=False):
        k = x.get('kind')
        ch = children(x)
        if k == 'BinaryOperator' and x.get('opcode') == '=':
            rec(ch[1])
            rec(ch[0], True)
            out.append(('assign', ch[0], ch[1], x))
            return
        if k == 'VarDecl':
            init = var_init(x)
            if init is not None:
                rec(init)
            out.append(('decl', x, init))
            return
        if k == 'ConditionalOperator':
            # evaluate all parts (over-approximation of order)
            for c in ch:
                rec(c)
            return
        for c in ch:
            rec(c)
        if k == 'CallExpr':
            out.append(('call', x))
        elif k == 'MemberExpr' and x.get('isArrow'):
            out.append(('deref', ch[0], x))
        elif k == 'UnaryOperator' and x.get('opcode') in ('++', '--'):
            out.append(('update', ch[0], x))
        elif k == 'CompoundAssignOperator':
            out.append(('update', ch[0], x))
        elif k == 'UnaryOperator' and x.get('opcode') == '*':
            out.append(('deref', ch[0], x))
        elif k == 'ArraySubscriptExpr':
            out.append(('deref', ch[0], x))
    rec(a)
    return out


def cond_null_test(e):
    """For an atomic condition: (path, null_on_true) if it tests a pointer path against NULL."""
    s = strip_parens(e)

    def path_of(x):
        x = strip(x)
        if x.get('kind') == 'BinaryOperator' and x.get('opcode') == '=':
            return access_path(children(x)[0])     # (p = f()) == NULL tests p
        return access_path(x)
    if s.get('kind') == 'BinaryOperator' and s.get('opcode') in ('==', '!='):
        a, b = children(s)
        p = None
        if is_null(b):
            p = path_of(a)
        elif is_null(a):
            p = path_of(b)
        if p:
            return p, s.get('opcode') == '=='
        return None
    if s.get('kind') == 'BinaryOperator' and s.get('opcode') == '=':
        p = access_path(children(s)[0])
        if p and qtype(s).rstrip().endswith('*'):
            return p, False
        return None
    p = access_path(s)
    if p and qtype(strip(s)).rstrip().endswith('*'):
        return p, False
    return None


# --------------------------------------------------------------------------------------
# summaries

class OwnModel:
    def __init__(self, prog):
        self.prog = prog
        self.frees_param = collections.defaultdict(set)    # func key -> param indices (may free)
        self.fresh = set()                                  # func keys returning fresh-or-NULL
        self.owns = collections.defaultdict(set)            # record -> owned pointer fields
        self.deref_param = collections.defaultdict(set)     # func key -> params dereferenced untested
        self.releases = collections.defaultdict(set)        # func key -> {(param idx, field)}
        self.deref_fields = collections.defaultdict(set)    # func key -> {(param idx, field)} dereferenced untested
        self._compute_frees()
        self._compute_fresh()
        self._compute_owns()
        self._compute_deref()
        self._compute_deref_fields()

    def _compute_deref_fields(self):
        for f in self.prog.funcs.values():
            tested = set()
            for n in f.cfg.nodes:
                if n.kind == 'cond' and isinstance(n.ast, dict):
                    t = cond_null_test(n.ast)
                    if t:
                        tested.add(t[0])
            pidx = {p.get('name'): i for i, p in enumerate(f.params)}
            for x in walk(f.body):
                b = None
                k = x.get('kind')
                if k == 'MemberExpr' and x.get('isArrow'):
                    b = strip(children(x)[0])
                elif k == 'UnaryOperator' and x.get('opcode') == '*':
                    b = strip(children(x)[0])
                if b is not None and b.get('kind') == 'MemberExpr' and b.get('isArrow'):
                    r = strip(children(b)[0])
                    if r.get('kind') == 'DeclRefExpr' and (r.get('_ref') or ('',))[0] == 'param':
                        path = access_path(b)
                        if path and path not in tested:
                            i = pidx.get(r['_ref'][2])
                            if i is not None:
                                self.deref_fields[f.key].add((i, b.get('name')))
        # transitive through calls passing the parameter itself on
        changed = True
        while changed:
            changed = False
            for f in self.prog.funcs.values():
                pidx = {p.get('name'): i for i, p in enumerate(f.params)}
                for x in walk(f.body):
                    if x.get('kind') != 'CallExpr':
                        continue
                    args = children(x)[1:]
                    for c in self.call_targets(f, x):
                        for (j, fld) in self.deref_fields.get(c.key, ()):
                            if j < len(args):
                                a = strip(args[j])
                                if a.get('kind') == 'DeclRefExpr' and (a.get('_ref') or ('',))[0] == 'param':
                                    i = pidx.get(a['_ref'][2])
                                    if i is not None and (i, fld) not in self.deref_fields[f.key]:
                                        # only if this function does not test param->fld itself
                                        tested = any(n.kind == 'cond' and isinstance(n.ast, dict) and cond_null_test(n.ast)
                                                     and cond_null_test(n.ast)[0] == '%s->%s' % (a['_ref'][2], fld)
                                                     for n in f.cfg.nodes)
                                        if not tested:
                                            self.deref_fields[f.key].add((i, fld))
                                            changed = True

    def call_targets(self, f, call):
        return [c for c in self.prog.callees(f.unit, call) if not isinstance(c, Ext)]

    def is_free_call(self, f, call):
        """Return list of argument expressions released by this call."""
        nm = self.prog.callee_name(call)
        args = children(call)[1:]
        if nm == FREE:
            return args[:1]
        out = []
        for c in self.call_targets(f, call):
            for i in self.frees_param.get(c.key, ()):
                if i < len(args):
                    out.append(args[i])
        return out

    def _compute_frees(self):
        changed = True
        while changed:
            changed = False
            for f in self.prog.funcs.values():
                pidx = {p['id']: i for i, p in enumerate(f.params)}
                for n in walk(f.body):
                    if n.get('kind') != 'CallExpr':
                        continue
                    for a in self.is_free_call(f, n):
                        s = strip(a)
                        if s.get('kind') == 'DeclRefExpr' and s.get('_ref') and s['_ref'][0] == 'param':
                            i = pidx.get(s['_ref'][1])
                            if i is not None and i not in self.frees_param[f.key]:
                                # only when the parameter is not reassigned in the function
                                self.frees_param[f.key].add(i)
                                changed = True

    def _local_defs(self, f, var_id):
        defs = []
        for n in walk(f.body):
            if n.get('kind') == 'VarDecl' and n.get('id') == var_id:
                init = var_init(n)
                if init is not None:
                    defs.append(init)
            elif n.get('kind') == 'BinaryOperator' and n.get('opcode') == '=':
                l = strip(children(n)[0])
                if l.get('kind') == 'DeclRefExpr' and l.get('_ref') and l['_ref'][1] == var_id:
                    defs.append(children(n)[1])
        return defs

    def expr_is_fresh(self, f, e, depth=0):
        e = strip(e)
        k = e.get('kind')
        if k == 'IntegerLiteral':
            return True
        if k == 'CallExpr':
            nm = self.prog.callee_name(e)
            if nm in ALLOCATORS:
                return True
            ts = self.call_targets(f, e)
            return bool(ts) and all(t.key in self.fresh for t in ts)
        if k == 'DeclRefExpr' and e.get('_ref') and e['_ref'][0] == 'local' and depth < 3:
            defs = self._local_defs(f, e['_ref'][1])
            return bool(defs) and all(self.expr_is_fresh(f, d, depth + 1) for d in defs)
        if k == 'ConditionalOperator':
            ch = children(e)
            return self.expr_is_fresh(f, ch[1], depth) and self.expr_is_fresh(f, ch[2], depth)
        return False

    def _compute_fresh(self):
        changed = True
        while changed:
            changed = False
            for f in self.prog.funcs.values():
                if f.key in self.fresh or not f.rettype.rstrip().endswith('*'):
                    continue
                rets = [r for r in f.cfg.returns() if children(r.ast)]
                if rets and all(self.expr_is_fresh(f, children(r.ast)[0]) for r in rets):
                    if any(not is_null(children(r.ast)[0]) for r in rets):
                        self.fresh.add(f.key)
                        changed = True

    def is_alloc_call(self, f, e):
        e = strip(e)
        if e.get('kind') != 'CallExpr':
            return False
        nm = self.prog.callee_name(e)
        if nm in ALLOCATORS:
            return True
        ts = self.call_targets(f, e)
        return bool(ts) and all(t.key in self.fresh for t in ts)

    def _compute_owns(self):
        for f in self.prog.funcs.values():
            pidx = {p['id']: i for i, p in enumerate(f.params)}
            for n in walk(f.body):
                rel = []
                if n.get('kind') == 'CallExpr':
                    rel = self.is_free_call(f, n)
                elif n.get('_macro') == 'Q_MUTEX_DESTROY' and not n.get('_macro_arg') and n.get('kind', '').endswith('Stmt'):
                    rel = [m for m in walk(n) if m.get('kind') == 'MemberExpr' and m.get('name') == 'qmutex'][:1]
                for a in rel:
                    s = strip(a)
                    if s.get('kind') == 'MemberExpr' and s.get('_field'):
                        fo = s['_field']
                        # links to nodes of the same record (left/right/next/prev) are structure, not owned payload
                        tr, _d = f.unit.resolve_typedef(fo[2])
                        if tr == fo[0]:
                            continue
                        self.owns[fo[0]].add(fo[1])
                        b = strip(children(s)[0])
                        if b.get('kind') == 'DeclRefExpr' and b.get('_ref') and b['_ref'][0] == 'param':
                            i = pidx.get(b['_ref'][1])
                            if i is not None:
                                self.releases[f.key].add((i, fo[1]))
        # transitive: g(p) called with our own parameter
        changed = True
        while changed:
            changed = False
            for f in self.prog.funcs.values():
                pidx = {p['id']: i for i, p in enumerate(f.params)}
                for n in walk(f.body):
                    if n.get('kind') != 'CallExpr':
                        continue
                    args = children(n)[1:]
                    for c in self.call_targets(f, n):
                        for (j, fld) in self.releases.get(c.key, ()):
                            if j < len(args):
                                a = strip(args[j])
                                if a.get('kind') == 'DeclRefExpr' and a.get('_ref') and a['_ref'][0] == 'param':
                                    i = pidx.get(a['_ref'][1])
                                    if i is not None and (i, fld) not in self.releases[f.key]:
                                        self.releases[f.key].add((i, fld))
                                        changed = True

    def _compute_deref(self):
        """Parameters dereferenced on some path without a preceding NULL test (syntactic:
        no `p == NULL`/`!p`/`p &&` test anywhere in the function)."""
        for f in self.prog.funcs.values():
            tested = set()
            for n in f.cfg.nodes:
                if n.kind == 'cond' and isinstance(n.ast, dict):
                    t = cond_null_test(n.ast)
                    if t:
                        tested.add(t[0])
            for n in walk(f.body):
                if n.get('kind') == 'ConditionalOperator':
                    t = cond_null_test(children(n)[0])
                    if t:
                        tested.add(t[0])
            for i, p in enumerate(f.params):
                nm = p.get('name')
                if not nm or nm in tested or not qtype(p).rstrip().endswith('*'):
                    continue
                for n in walk(f.body):
                    k = n.get('kind')
                    b = None
                    if k == 'MemberExpr' and n.get('isArrow'):
                        b = strip(children(n)[0])
                    elif k == 'UnaryOperator' and n.get('opcode') == '*':
                        b = strip(children(n)[0])
                    elif k == 'ArraySubscriptExpr':
                        b = strip(children(n)[0])
                    elif k == 'CallExpr':
                        cn = self.prog.callee_name(n)
                        if cn in NONNULL_ARGS:
                            args = children(n)[1:]
                            for j in NONNULL_ARGS[cn]:
                                if j < len(args):
                                    a = strip(args[j])
                                    if a.get('kind') == 'DeclRefExpr' and a.get('_ref') and a['_ref'][0] == 'param' \
                                            and a['_ref'][2] == nm:
                                        self.deref_param[f.key].add(i)
                    if b is not None and b.get('kind') == 'DeclRefExpr' and b.get('_ref') \
                            and b['_ref'][0] == 'param' and b['_ref'][2] == nm:
                        self.deref_param[f.key].add(i)


# --------------------------------------------------------------------------------------
# generic path-sensitive propagation

def _simple_cond(e):
    """A condition whose truth depends only on locals/params and constants (no calls, no memory reads)."""
    names = set()
    for x in walk(e):
        k = x.get('kind')
        if k in ('CallExpr', 'MemberExpr', 'ArraySubscriptExpr', 'ConditionalOperator', 'CompoundAssignOperator'):
            return None
        if k == 'UnaryOperator' and x.get('opcode') in ('*', '++', '--', '&'):
            return None
        if k == 'BinaryOperator' and x.get('opcode') in ('=', ','):
            return None
        if k == 'DeclRefExpr':
            r = x.get('_ref') or ('',)
            if r[0] not in ('local', 'param', 'enum'):
                return None
            if r[0] != 'enum':
                names.add(r[1])
    return names


def propagate(f, init, transfer, branch=None):
    """Forward propagation of sets of states (frozensets of facts).
    transfer(node, state) -> state ; branch(node, state, label) -> state or None (infeasible).
    Truth values of simple conditions (over locals/params only) are remembered along a path
    as ('C', canon, 'T'|'F') facts, so `if (flag) a = alloc(); ... if (flag) free(a);` is not
    explored along the two infeasible combinations."""
    from .dataflow import node_defs
    cfg = f.cfg
    start = (init, frozenset())
    states = {cfg.entry.id: {init}}
    work = [(cfg.entry, start)]
    seen = {(cfg.entry.id, start)}
    counts = collections.Counter()
    truncated = False
    cond_info = {}
    for n in cfg.nodes:
        if n.kind == 'cond' and isinstance(n.ast, dict):
            names = _simple_cond(n.ast)
            if names is not None:
                cond_info[n.id] = (canon(n.ast), frozenset(names))
    kills = {}
    consts = {}           # node id -> [(var id, var name, literal value)] : locals assigned an integer literal here
    vnames = {x.get('id'): x.get('name') for x in walk(f.decl) if x.get('kind') in ('VarDecl', 'ParmVarDecl')}
    from .expr import eval_int
    for n in cfg.nodes:
        nd = node_defs(n)
        ds = {d[0] for d in nd}
        if ds:
            kills[n.id] = ds
        for (vid, rhs, kind, _l) in nd:
            if kind in ('init', 'assign') and rhs is not None and vid in vnames:
                v = int_value_(strip(rhs))
                if isinstance(v, int):
                    consts.setdefault(n.id, []).append((vid, vnames[vid], v))
    while work:
        n, (st, cf) = work.pop()
        out = transfer(n, st)
        if cf and n.id in kills:
            cf = frozenset(x for x in cf if not (x[2] & kills[n.id]))
        if n.id in consts:
            # must-constants of literal-valued locals: `err = ENOMEM; goto done; ... if (err != 0)` is decided
            cf = frozenset(set(cf) | {('=K', (nm, v), frozenset([vid])) for (vid, nm, v) in consts[n.id]})
        for (s, lab) in n.succs:
            st2, cf2 = out, cf
            if lab in ('T', 'F') and n.id in cond_info:
                cc, names = cond_info[n.id]
                known = [x for x in cf if x[0] == cc]
                if known:
                    if known[0][1] != lab:
                        continue
                else:
                    env = {x[1][0]: x[1][1] for x in cf if x[0] == '=K'}
                    tv = eval_int(n.ast, env) if env and names and all(vnames.get(v) in env for v in names) else None
                    if tv is not None and (bool(tv) != (lab == 'T')):
                        continue
                    cf2 = frozenset(cf | {(cc, lab, names)})
            if branch is not None and lab in ('T', 'F'):
                st2 = branch(n, st2, lab)
                if st2 is None:
                    continue
            key = (s.id, (st2, cf2))
            if key in seen:
                continue
            if counts[s.id] >= MAX_STATES:
                truncated = True
                continue
            counts[s.id] += 1
            states.setdefault(s.id, set()).add(st2)
            seen.add(key)
            work.append((s, (st2, cf2)))
    return states, truncated


# --------------------------------------------------------------------------------------
# M2: destruction completeness

def rule_m2(prog, rep, om, units, sm, fault=None, rid='M2'):
    """fault=None: report everything; False: only violations on paths that do not pass an
    allocation-failure branch (C11); True: only those that do (C15)."""
    rep.rule(rid, 'a destruction site that frees one owned field of a node frees all owned fields and the node itself '
                  '(or re-assigns the field); free(node) requires its owned fields released')
    rep.notes['owned_fields'] = {k: sorted(v) for k, v in sorted(om.owns.items())}
    for rel in units:
        for f in sorted(prog.funcs_in(rel), key=lambda x: x.line or 0):
            _m2_func(prog, rep, om, f, sm, rid, fault)


def _rec_of(f, e):
    t = qtype(strip(e))
    r, depth = f.unit.resolve_typedef(t)
    return r, depth


def _m2_func(prog, rep, om, f, sm, rid, fault=None):
    frees = []
    for n in f.cfg.nodes:
        if n.id in f.cfg.reachable and isinstance(n.ast, dict):
            if n.kind == 'macro':
                if n.info[0] == 'Q_MUTEX_DESTROY':
                    frees.append(n.ast)
                continue
            for c in walk(n.ast):
                if c.get('kind') == 'CallExpr' and om.is_free_call(f, c):
                    frees.append(c)
    if not frees:
        return
    interesting = False
    for c in frees:
        if c.get('kind') != 'CallExpr':
            continue
        for a in om.is_free_call(f, c):
            s = strip(a)
            if s.get('kind') == 'MemberExpr' and s.get('_field') and s['_field'][1] in om.owns.get(s['_field'][0], ()):
                interesting = True
            r, d = _rec_of(f, a)
            if r in om.owns and d == 1:
                interesting = True
    if not interesting:
        return
    rep.instance(rid)
    reported = set()
    # array cursors: bases stepped with ++ / += / subscripted are elements of an array, not nodes
    array_bases = set()
    for n in walk(f.body):
        k = n.get('kind')
        if (k == 'UnaryOperator' and n.get('opcode') in ('++', '--')) or k == 'CompoundAssignOperator':
            p = access_path(children(n)[0])
            if p:
                array_bases.add(p)
        elif k == 'ArraySubscriptExpr':
            p = access_path(children(n)[0])
            if p:
                array_bases.add(p)

    def is_public_param(bexpr):
        b = strip(bexpr)
        return (b.get('kind') == 'DeclRefExpr' and (b.get('_ref') or ('',))[0] == 'param' and not f.static)

    def by_value(bexpr):
        b = strip(bexpr)
        return b.get('kind') == 'DeclRefExpr' and not qtype(b).rstrip().endswith('*')

    def check_out_of_reach(st, base, line, how):
        fields = {x[2] for x in st if x[0] == 'F' and x[1] == base and x[4]}
        if not fields:
            return
        if ('N', base) in st:
            return
        rec = next((x[3] for x in st if x[0] == 'F' and x[1] == base), None)
        need = om.owns.get(rec, set())
        key = (base, 'partial')
        if key in reported:
            return
        if fault is not None and (('FAULT', '', '') in st) != fault:
            return
        reported.add(key)
        allf = {x[2] for x in st if x[0] == 'F' and x[1] == base}
        missing = sorted(need - allf)
        rep.violation(rid, f, line, '%s:node' % base,
                      'frees %s but %s before %s - the node leaks or is left with dangling fields'
                      % (', '.join('%s->%s' % (base, x) for x in sorted(fields)),
                         'never frees %s itself' % base if not missing else
                         'not ' + ', '.join('%s->%s' % (base, x) for x in missing), how))

    def release_field(s, e, explicit=True):
        """e: MemberExpr being released"""
        bexpr = children(e)[0]
        base = access_path(bexpr)
        if not base:
            return
        track = explicit and not by_value(bexpr) and not is_public_param(bexpr) and base not in array_bases
        s.add(('F', base, e['_field'][1], e['_field'][0], track))

    def borrow(s, local, rhs):
        """local = base->field (directly or as an arm of ?:): the local may now hold the block the field owns, so a
        later free(local) releases that field exactly as free(base->field) would."""
        todo = [rhs]
        while todo:
            e = strip(todo.pop())
            if e.get('kind') == 'ConditionalOperator':
                todo.extend(children(e)[1:3])
            elif e.get('kind') == 'MemberExpr' and e.get('_field') and e['_field'][1] in om.owns.get(e['_field'][0], ()):
                bexpr = children(e)[0]
                base = access_path(bexpr)
                if base and base != local:
                    track = not by_value(bexpr) and not is_public_param(bexpr) and base not in array_bases
                    s.add(('B', base, e['_field'][1], local, e['_field'][0], track))

    def transfer(n, st):
        if not isinstance(n.ast, dict):
            return st
        s = set(st)
        if n.kind == 'macro':
            if n.info[0] == 'Q_MUTEX_DESTROY':
                for m in walk(n.ast):
                    if m.get('kind') == 'MemberExpr' and m.get('name') == 'qmutex' and m.get('_field'):
                        release_field(s, m, explicit=False)
                        break
            return frozenset(s)
        for ev in node_events(n):
            if ev[0] == 'call':
                call = ev[1]
                is_libc_free = prog.callee_name(call) == FREE
                args = children(call)[1:]
                # callee releases fields of its argument
                for c in om.call_targets(f, call):
                    for (j, fld) in om.releases.get(c.key, ()):
                        if j < len(args):
                            bp = access_path(args[j])
                            if bp:
                                rec, _d = _rec_of(f, args[j])
                                s.add(('F', bp, fld, rec, False))
                for a in om.is_free_call(f, call):
                    e = strip(a)
                    p = access_path(e)
                    if p is None:
                        continue
                    if e.get('kind') == 'MemberExpr' and e.get('_field') and \
                            e['_field'][1] in om.owns.get(e['_field'][0], ()):
                        release_field(s, e)
                        continue
                    # alias: a local that was stored into base->field
                    for x in list(s):
                        if x[0] == 'A' and x[3] == p:
                            s.add(('F', x[1], x[2], x[4], False))
                        elif x[0] == 'B' and x[3] == p:
                            s.add(('F', x[1], x[2], x[4], x[5]))
                    rec, d = _rec_of(f, e)
                    if rec in om.owns and d == 1 and om.owns[rec]:
                        if is_libc_free and p not in array_bases:
                            need = set(om.owns[rec])
                            have = {x[2] for x in s if x[0] == 'F' and x[1] == p}
                            assigned = {x[2] for x in s if x[0] == '=' and x[1] == p}
                            if _is_fresh_local(om, f, e):
                                missing = (need & assigned) - have
                            else:
                                missing = need - have
                            if missing and (p, 'node') not in reported and \
                                    (fault is None or ((('FAULT', '', '') in s) == fault)):
                                reported.add((p, 'node'))
                                rep.violation(rid, f, call.get('_line'), '%s:fields' % p,
                                              'free(%s) while %s %s still owned and not released on this path'
                                              % (p, ', '.join('%s->%s' % (p, m) for m in sorted(missing)),
                                                 'is' if len(missing) == 1 else 'are'))
                        s.add(('N', p))
                # &X passed to a call: the callee may re-fill X
                for a in args:
                    sa = strip(a)
                    if sa.get('kind') == 'UnaryOperator' and sa.get('opcode') == '&':
                        xp = access_path(children(sa)[0])
                        if xp:
                            s = {x for x in s if not (len(x) > 1 and x[1] == xp)}
            elif ev[0] == 'assign':
                lhs = strip(ev[1])
                lp = access_path(lhs)
                if lhs.get('kind') == 'MemberExpr' and lhs.get('_field'):
                    base = access_path(children(lhs)[0])
                    fld = lhs['_field'][1]
                    if base:
                        s = {x for x in s if not (x[0] in ('F', 'A', 'B', '=', 'Z') and x[1] == base and x[2] == fld)}
                        if not is_null(ev[2]):
                            s.add(('=', base, fld))
                        else:
                            s.add(('F', base, fld, lhs['_field'][0], False))
                            s.add(('Z', base, fld))
                        rp = access_path(ev[2])
                        if rp and '->' not in rp and '.' not in rp:
                            s.add(('A', base, fld, rp, lhs['_field'][0]))
                elif lp and lhs.get('kind') == 'DeclRefExpr':
                    check_out_of_reach(s, lp, ev[3].get('_line'), '%s is re-assigned' % lp)
                    s = {x for x in s if not (len(x) > 1 and (x[1] == lp or str(x[1]).startswith(lp + '->')))}
                    s = {x for x in s if not (x[0] in ('A', 'B') and x[3] == lp)}
                    borrow(s, lp, ev[2])
            elif ev[0] == 'update':
                lp = access_path(ev[1])
                if lp:
                    s = {x for x in s if not (len(x) > 1 and (x[1] == lp or str(x[1]).startswith(lp + '->')))}
            elif ev[0] == 'decl':
                nm = ev[1].get('name')
                s = {x for x in s if not (len(x) > 1 and (x[1] == nm or str(x[1]).startswith(nm + '->')))}
                if ev[2] is not None:
                    borrow(s, nm, ev[2])
        if n.kind == 'act' and n.ast.get('kind') == 'ReturnStmt':
            bases = {x[1] for x in s if x[0] == 'F' and x[4]}
            for b in sorted(bases):
                check_out_of_reach(s, b, n.line, 'the function returns')
        return frozenset(s)

    def branch(n, st, lab):
        t = cond_null_test(n.ast) if isinstance(n.ast, dict) else None
        if not t:
            return st
        path, null_on_true = t
        is_null_branch = (lab == 'T') == null_on_true
        if not is_null_branch:
            return st
        if '->' not in path and '.' not in path:
            for x in walk(n.ast):
                if x.get('kind') == 'DeclRefExpr' and (x.get('_ref') or ('',))[0] == 'local' and _is_fresh_local(om, f, x):
                    return frozenset(set(st) | {('FAULT', '', '')})
            return st
        # find the MemberExpr tested
        m = None
        for x in walk(n.ast):
            if x.get('kind') == 'MemberExpr' and x.get('_field') and access_path(x) == path:
                m = x
                break
        if m is None:
            return st
        base = access_path(children(m)[0])
        if not base:
            return st
        s = {x for x in st if not (x[0] in ('=', 'Z') and x[1] == base and x[2] == m['_field'][1])}
        if len(s) != len(st):
            s.add(('FAULT', '', ''))     # a value produced in this function turned out NULL
        s.add(('F', base, m['_field'][1], m['_field'][0], False))
        return frozenset(s)

    states, trunc = propagate(f, frozenset(), transfer, branch)
    rep.oblige(rid, not reported, {'function': f.name, 'free_calls': len(frees)})
    if trunc:
        rep.not_analysed.append('M2: state cap reached in %s' % f.name)


def _is_fresh_local(om, f, e):
    e = strip(e)
    if e.get('kind') == 'DeclRefExpr' and e.get('_ref') and e['_ref'][0] == 'local':
        return om.expr_is_fresh(f, e)
    return False


# --------------------------------------------------------------------------------------
# M3: use after free / double free within a function

def rule_m3(prog, rep, om, units):
    rid = 'M3'
    rep.rule(rid, 'after free(e) no path dereferences e / passes it on / frees it again before re-assignment')
    for rel in units:
        for f in sorted(prog.funcs_in(rel), key=lambda x: x.line or 0):
            has_free = any(c.get('kind') == 'CallExpr' and om.is_free_call(f, c) for c in walk(f.body))
            if not has_free:
                continue
            rep.instance(rid)
            _m3_func(prog, rep, om, f, rid)


def _m3_func(prog, rep, om, f, rid):
    reported = set()
    raw_params = {}
    for p in f.params:
        t = ((p.get('type') or {}).get('qualType') or '').replace('const ', '').strip()
        raw_params[p.get('name')] = t in ('void *', 'char *', 'unsigned char *')
    field_types = {}
    for x in walk(f.body):
        if x.get('kind') == 'MemberExpr' and x.get('isArrow'):
            ap = access_path(x)
            if ap:
                field_types[ap] = qtype(x) or ''

    def payload_field(fp):
        t = field_types.get(fp, '').replace('const ', '').strip()
        return t in ('void *', 'char *', 'unsigned char *')

    def uses_freed(st, p):
        for fp in st:
            if p == fp or p.startswith(fp + '->') or p.startswith(fp + '['):
                return fp
        return None

    def report(line, p, fp, what):
        key = (fp, what)
        if key in reported:
            return
        reported.add(key)
        rep.violation(rid, f, line, '%s:%s' % (what, fp), '%s of %s after free(%s)' % (what, p, fp))

    def transfer(n, st):
        if n.kind == 'macro' or not isinstance(n.ast, dict):
            return st
        s = set(st)
        for ev in node_events(n):
            if ev[0] == 'deref':
                p = access_path(ev[1])
                if p:
                    fp = uses_freed(s, p)
                    if fp:
                        report(ev[2].get('_line'), canon(ev[2]), fp, 'dereference')
            elif ev[0] == 'call':
                call = ev[1]
                freed_args = om.is_free_call(f, call)
                fa = [access_path(a) for a in freed_args]
                for a in children(call)[1:]:
                    p = access_path(a)
                    if p and qtype(strip(a)).rstrip().endswith('*'):
                        fp = uses_freed(s, p)
                        if fp and fp == p:
                            report(call.get('_line'), p, fp, 'double free' if p in fa else 'use as call argument')
                # a raw pointer handed in by the caller may point into the payload just freed (it can come from a
                # non-copying get): reading through it while an owned payload field is freed-and-not-yet-replaced
                # is a use after free for that caller.  (Allocate and copy first, release the old block afterwards.)
                if not freed_args:
                    for a in children(call)[1:]:
                        sa = strip(a)
                        if sa.get('kind') == 'DeclRefExpr' and (sa.get('_ref') or ('',))[0] == 'param' and raw_params.get(sa['_ref'][2]):
                            for fp in sorted(s):
                                if '->' in fp and payload_field(fp):
                                    report(call.get('_line'), sa['_ref'][2], fp, 'read through caller pointer')
                for p in fa:
                    if p:
                        s.add(p)
                for a in children(call)[1:]:
                    sa = strip(a)
                    if sa.get('kind') == 'UnaryOperator' and sa.get('opcode') == '&':
                        xp = access_path(children(sa)[0])
                        if xp:
                            s = {x for x in s if not (x == xp or x.startswith(xp + '->') or x.startswith(xp + '.'))}
            elif ev[0] in ('assign', 'update'):
                lp = access_path(ev[1])
                if lp:
                    s = {x for x in s if not (x == lp or x.startswith(lp + '->') or x.startswith(lp + '.'))}
            elif ev[0] == 'decl':
                nm = ev[1].get('name')
                s = {x for x in s if not (x == nm or x.startswith(nm + '->') or x.startswith(nm + '.'))}
        if n.kind == 'act' and n.ast.get('kind') == 'ReturnStmt' and children(n.ast):
            p = access_path(children(n.ast)[0])
            if p:
                fp = uses_freed(s, p)
                if fp and fp == p:
                    report(n.line, p, fp, 'return')
        return frozenset(s)

    propagate(f, frozenset(), transfer)
    rep.oblige(rid, not reported, {'function': f.name})


# --------------------------------------------------------------------------------------
# A1: unchecked allocation results

# Fields that other code dereferences unconditionally: a NULL stored there breaks later calls.
MUST_NONNULL = {
    ('qtreetbl_obj_s', 'name'): 'handed to the comparator (memcmp) on every descent',
    ('qhashtbl_obj_s', 'name'): 'strcmp() in every lookup',
    ('qhashtbl_obj_s', 'data'): 'memcpy() source in get',
    ('qlisttbl_obj_s', 'name'): 'strcmp()/strlen() in every lookup',
    ('qlisttbl_obj_s', 'data'): 'memcpy() source in get',
    ('qlist_obj_s', 'data'): 'memcpy() source in get/toarray',
}


def _alloc_in(om, f, e):
    """The allocator CallExpr producing the value of e (through casts, ?:, chained =), or None."""
    e = strip(e)
    k = e.get('kind')
    if k == 'CallExpr':
        return e if om.is_alloc_call(f, e) else None
    if k == 'ConditionalOperator':
        ch = children(e)
        return _alloc_in(om, f, ch[1]) or _alloc_in(om, f, ch[2])
    return None


def _site(call):
    return '%s:%s' % (call.get('_line'), call.get('_col'))


def rule_a1(prog, rep, om, units, rid='A1'):
    rep.rule(rid, 'every allocation result is NULL-tested before it is dereferenced, handed to a callee that '
                  'dereferences it, or left in a must-be-non-NULL field')
    for rel in units:
        for f in sorted(prog.funcs_in(rel), key=lambda x: x.line or 0):
            sites = [c for c in walk(f.body) if c.get('kind') == 'CallExpr' and om.is_alloc_call(f, c)]
            if not sites:
                continue
            rep.instance(rid, len(sites))
            _a1_func(prog, rep, om, f, rid, sites)


def _a1_func(prog, rep, om, f, rid, sites):
    reported = {}
    site_name = {}
    for c in sites:
        site_name[_site(c)] = prog.callee_name(c) or canon(children(c)[0])

    def report(line, site, what):
        if site in reported:
            return
        reported[site] = what
        rep.violation(rid, f, line, '%s@%s' % (site_name.get(site, 'alloc'), _nth_site(sites, site)),
                      'result of %s() (line %s) %s without a NULL test'
                      % (site_name.get(site, 'alloc'), site.split(':')[0], what))

    def held(st, path):
        return [x[2] for x in st if x[0] == 'U' and x[1] == path]

    def report_null(line, site, what):
        key = ('null', site)
        if key in reported:
            return
        reported[key] = what
        rep.violation(rid, f, line, 'null:%s@%s' % (site_name.get(site, 'alloc'), _nth_site(sites, site)),
                      'on the path where %s() (line %s) failed, %s: NULL dereference on the allocation-failure path'
                      % (site_name.get(site, 'alloc'), site.split(':')[0], what))

    def kill_path(s, p):
        return {x for x in s if not (x[1] == p or x[1].startswith(p + '->') or x[1].startswith(p + '.'))}

    def do_assign(s, lp, rhs):
        s = kill_path(s, lp)
        r = strip(rhs)
        if r.get('kind') == 'BinaryOperator' and r.get('opcode') == '=':
            src = access_path(children(r)[0])
            if src:
                for site in held(s, src):
                    s.add(('U', lp, site))
            return s
        a = _alloc_in(om, f, rhs)
        if a is not None:
            s.add(('U', lp, _site(a)))
            return s
        src = access_path(rhs)
        if src:
            for site in held(s, src):
                s.add(('U', lp, site))
        return s

    def ptr_arg_path(a):
        """path of a pointer argument, looking through `p + k` and `&p->m`."""
        e = strip(a)
        while True:
            k = e.get('kind')
            if k == 'BinaryOperator' and e.get('opcode') in ('+', '-'):
                e = strip(children(e)[0])
            elif k == 'UnaryOperator' and e.get('opcode') == '&':
                x = strip(children(e)[0])
                if x.get('kind') == 'MemberExpr' and x.get('isArrow'):
                    e = strip(children(x)[0])
                elif x.get('kind') == 'ArraySubscriptExpr':
                    e = strip(children(x)[0])
                else:
                    return None
            else:
                break
        return access_path(e)

    def transfer(n, st):
        if not isinstance(n.ast, dict) or n.kind == 'macro':
            return st
        s = set(st)
        # assert(p != NULL) style checks compiled in
        # `p ? f(p) : NULL` and compiled-in assert(p != NULL): the tested value counts as checked
        for x in walk(n.ast):
            if x.get('kind') == 'ConditionalOperator':
                ch = children(x)
                t = cond_null_test(ch[0])
                if t:
                    for site in held(s, t[0]):
                        s = {y for y in s if y[2] != site}
        for ev in node_events(n):
            if ev[0] == 'deref':
                p = access_path(ev[1])
                if p:
                    for site in held(s, p):
                        report(ev[2].get('_line'), site, 'is dereferenced (%s)' % canon(ev[2])[:50])
                        s = {y for y in s if y[2] != site}
                    for y in [y for y in s if y[0] == 'N' and y[1] == p]:
                        report_null(ev[2].get('_line'), y[2], '%s is dereferenced (%s)' % (p, canon(ev[2])[:50]))
                        s = {z for z in s if z != y}
            elif ev[0] == 'call':
                call = ev[1]
                nm = prog.callee_name(call)
                args = children(call)[1:]
                for c in om.call_targets(f, call):
                    for (j, fld) in om.deref_fields.get(c.key, ()):
                        if j < len(args):
                            ap = access_path(args[j])
                            if ap:
                                for y in [y for y in s if y[0] == 'N' and y[1] == '%s->%s' % (ap, fld)]:
                                    report_null(call.get('_line'), y[2], '%s is handed to %s() which dereferences %s->%s'
                                                % (ap, c.name, ap, fld))
                                    s = {z for z in s if z != y}
                idxs = set(NONNULL_ARGS.get(nm, ()))
                for c in om.call_targets(f, call):
                    idxs |= om.deref_param.get(c.key, set())
                for i in idxs:
                    if i < len(args):
                        p = ptr_arg_path(args[i])
                        if p:
                            for site in held(s, p):
                                report(call.get('_line'), site, 'is passed to %s() which dereferences it'
                                       % (nm or canon(children(call)[0])))
                                s = {y for y in s if y[2] != site}
                for a in om.is_free_call(f, call):
                    p = access_path(a)
                    if p:
                        for site in held(s, p):
                            s = {y for y in s if y[2] != site}
                        s = {y for y in s if not y[1].startswith(p + '->')}
            elif ev[0] == 'assign':
                lp = access_path(ev[1])
                if lp:
                    s = do_assign(s, lp, ev[2])
                else:
                    # store through a computed lvalue (*out = malloc()): value escapes to the caller
                    pass
            elif ev[0] == 'decl':
                nm = ev[1].get('name')
                if ev[2] is not None and nm:
                    s = do_assign(s, nm, ev[2])
        if n.kind == 'act' and n.ast.get('kind') == 'ReturnStmt':
            for x in sorted(s):
                if x[0] != 'U':
                    continue
                fld = _field_of_path(f, x[1])
                if fld and fld in MUST_NONNULL:
                    report(n.line, x[2], 'is left in %s (%s) when the function returns at line %s'
                           % (x[1], MUST_NONNULL[fld], n.line))
                elif fld:
                    report(n.line, x[2], 'is committed to %s when the function returns at line %s: a failed allocation is '
                                         'silently absorbed as an empty value' % (x[1], n.line))
        return frozenset(s)

    def branch(n, st, lab):
        t = cond_null_test(n.ast) if isinstance(n.ast, dict) else None
        if not t:
            return st
        if (lab == 'T') != t[1] and any(x[0] == 'N' and x[1] == t[0] for x in st):
            # the pointer is known NULL (its allocation failed on this path) and this edge is the non-NULL arm of a
            # test of it: the edge is infeasible for that fact (`fail: if (p != NULL) { ... p->f ... }`)
            st = frozenset(x for x in st if not (x[0] == 'N' and x[1] == t[0]))
        sites = set(held(st, t[0]))
        if not sites:
            return st
        out = set(x for x in st if not (x[0] == 'U' and x[2] in sites))
        if (lab == 'T') == t[1]:
            # the allocation failed on this path: the pointer is NULL here
            for x in st:
                if x[0] == 'U' and x[2] in sites:
                    out.add(('N', x[1], x[2]))
        return frozenset(out)

    # map path -> field for the must-non-NULL check
    path_field = {}
    for x in walk(f.body):
        if x.get('kind') == 'MemberExpr' and x.get('_field'):
            p = access_path(x)
            if p:
                path_field[p] = (x['_field'][0], x['_field'][1])

    def _field_of_path(f_, p):
        return path_field.get(p)

    propagate(f, frozenset(), transfer, branch)
    for c in sites:
        rep.oblige(rid, _site(c) not in reported and ('null', _site(c)) not in reported,
                   {'function': f.name, 'site': '%s:%s %s()' % (f.relfile, c.get('_line'), site_name[_site(c)])})


def _nth_site(sites, site):
    names = [_site(c) for c in sorted(sites, key=lambda c: (c.get('_line') or 0, c.get('_col') or 0))]
    return names.index(site) if site in names else -1


# --------------------------------------------------------------------------------------
# A3: failure-path release (local ownership)

NONCAPTURING = {'memcpy', 'memmove', 'memset', 'strlen', 'strcpy', 'strncpy', 'strcmp', 'strncmp', 'strcasecmp',
                'snprintf', 'sprintf', 'vsnprintf', 'strcat', 'strncat', 'fwrite', 'fread', 'fputs', 'fprintf',
                'printf', 'write', 'read', 'atoi', 'atoll', 'strstr', 'strchr', 'memcmp', 'fgets', 'vsprintf',
                'qhashmurmur3_32', 'qhashmd5', 'qhashfnv1_32', 'pthread_mutex_init', 'pthread_mutexattr_init'}


def compute_captures(prog, om):
    """func key -> set of parameter indices that may be stored to the heap, returned or freed."""
    cap = collections.defaultdict(set)
    changed = True
    while changed:
        changed = False
        for f in prog.funcs.values():
            pidx = {p['id']: i for i, p in enumerate(f.params)}

            def pi(e):
                r = root_var(e)
                if r and r[0] == 'param':
                    return pidx.get(r[1])
                return None
            for n in walk(f.body):
                k = n.get('kind')
                hit = None
                if k == 'BinaryOperator' and n.get('opcode') == '=':
                    l = strip(children(n)[0])
                    if l.get('kind') != 'DeclRefExpr':
                        hit = pi(children(n)[1])
                        # only direct pointer values, not p->x reads
                        r = strip(children(n)[1])
                        if r.get('kind') not in ('DeclRefExpr', 'BinaryOperator', 'ConditionalOperator', 'UnaryOperator'):
                            hit = None
                elif k == 'ReturnStmt' and children(n):
                    r = strip(children(n)[0])
                    if r.get('kind') == 'DeclRefExpr':
                        hit = pi(r)
                elif k == 'CallExpr':
                    args = children(n)[1:]
                    nm = prog.callee_name(n)
                    if nm == FREE and args:
                        a = strip(args[0])
                        if a.get('kind') == 'DeclRefExpr':
                            hit = pi(a)
                    for c in om.call_targets(f, n):
                        for j in cap.get(c.key, ()):
                            if j < len(args):
                                a = strip(args[j])
                                if a.get('kind') == 'DeclRefExpr':
                                    i = pi(a)
                                    if i is not None and i not in cap[f.key]:
                                        cap[f.key].add(i)
                                        changed = True
                if hit is not None and hit not in cap[f.key]:
                    cap[f.key].add(hit)
                    changed = True
    return cap


def rule_a3(prog, rep, om, units, rid='A3'):
    rep.rule(rid, 'a block allocated in a function is freed, returned, stored or handed over on every path to a return '
                  '(no leak on failure paths); p = realloc(p, n) keeps the old block reachable')
    cap = compute_captures(prog, om)
    for rel in units:
        for f in sorted(prog.funcs_in(rel), key=lambda x: x.line or 0):
            sites = [c for c in walk(f.body) if c.get('kind') == 'CallExpr' and om.is_alloc_call(f, c)]
            if not sites:
                continue
            rep.instance(rid, len(sites))
            _a3_func(prog, rep, om, f, rid, sites, cap)


def _a3_func(prog, rep, om, f, rid, sites, cap):
    reported = {}
    site_name = {_site(c): (prog.callee_name(c) or 'alloc') for c in sites}

    def report(line, site, what):
        if site in reported:
            return
        reported[site] = what
        rep.violation(rid, f, line, '%s@%s' % (site_name.get(site, 'alloc'), _nth_site(sites, site)),
                      'block from %s() at line %s %s' % (site_name.get(site, 'alloc'), site.split(':')[0], what))

    # realloc self-assignment
    for n in walk(f.body):
        if n.get('kind') == 'BinaryOperator' and n.get('opcode') == '=':
            l, r = children(n)
            rr = strip(r)
            if rr.get('kind') == 'CallExpr' and prog.callee_name(rr) == 'realloc':
                lp = access_path(l)
                ap = access_path(children(rr)[1]) if len(children(rr)) > 1 else None
                if lp and lp == ap:
                    report(n.get('_line'), _site(rr),
                           'overwrites %s, the only pointer to the old block: when realloc() fails the old block '
                           '(and everything it refers to) is lost' % lp)

    def locals_only(p):
        return p is not None and '->' not in p and '.' not in p and '[' not in p

    def drop_site(s, site):
        return {x for x in s if x[2] != site}

    def transfer(n, st):
        if not isinstance(n.ast, dict) or n.kind == 'macro':
            return st
        s = set(st)
        for ev in node_events(n):
            if ev[0] in ('assign', 'decl'):
                if ev[0] == 'assign':
                    lhs, rhs = ev[1], ev[2]
                    lp = access_path(lhs)
                    is_local = strip(lhs).get('kind') == 'DeclRefExpr' and (strip(lhs).get('_ref') or ('',))[0] == 'local'
                else:
                    lp, rhs, is_local = ev[1].get('name'), ev[2], True
                    if rhs is None:
                        continue
                a = _alloc_in(om, f, rhs)
                rp = access_path(rhs)
                r0 = strip(rhs)
                if r0.get('kind') == 'BinaryOperator' and r0.get('opcode') == '=':
                    rp = access_path(children(r0)[0])
                if is_local and lp:
                    s = {x for x in s if x[1] != lp}
                    if a is not None:
                        s.add(('O', lp, _site(a)))
                    elif rp:
                        for x in list(s):
                            if x[1] == rp:
                                s.add(('O', lp, x[2]))
                else:
                    # store into memory: ownership moves to the holder
                    if rp:
                        for x in list(s):
                            if x[1] == rp:
                                s = drop_site(s, x[2])
            elif ev[0] == 'call':
                call = ev[1]
                nm = prog.callee_name(call)
                args = children(call)[1:]
                targets = om.call_targets(f, call)
                for i, a in enumerate(args):
                    p = access_path(a)
                    if not locals_only(p):
                        continue
                    owned = [x for x in s if x[1] == p]
                    if not owned:
                        continue
                    if nm == FREE:
                        for x in owned:
                            s = drop_site(s, x[2])
                    elif nm == 'realloc' and i == 0:
                        for x in owned:
                            s = drop_site(s, x[2])
                    elif targets:
                        if any(i in cap.get(t.key, ()) or i in om.frees_param.get(t.key, ()) for t in targets):
                            for x in owned:
                                s = drop_site(s, x[2])
                    elif nm in NONCAPTURING:
                        pass
                    else:
                        for x in owned:
                            s = drop_site(s, x[2])
        if n.kind == 'act' and n.ast.get('kind') == 'ReturnStmt':
            if children(n.ast):
                for x in walk(children(n.ast)[0]):
                    if x.get('kind') == 'DeclRefExpr':
                        p = access_path(x)
                        for y in list(s):
                            if y[1] == p:
                                s = drop_site(s, y[2])
            for x in sorted(s):
                report(n.line, x[2], 'is still owned only by local `%s` when the function returns at line %s (leak)'
                       % (x[1], n.line))
        return frozenset(s)

    def branch(n, st, lab):
        t = cond_null_test(n.ast) if isinstance(n.ast, dict) else None
        if not t:
            return st
        path, null_on_true = t
        if (lab == 'T') != null_on_true:
            return st
        sites_ = {x[2] for x in st if x[1] == path}
        if not sites_:
            return st
        return frozenset(x for x in st if x[2] not in sites_)

    _states, trunc = propagate(f, frozenset(), transfer, branch)
    if trunc:
        rep.not_analysed.append('A3: state cap reached in %s' % f.name)
    for c in sites:
        rep.oblige(rid, _site(c) not in reported,
                   {'function': f.name, 'site': '%s:%s %s()' % (f.relfile, c.get('_line'), site_name[_site(c)])})


# --------------------------------------------------------------------------------------
# A2: allocate-then-commit

def counter_fields(prog, sm):
    """Integer fields of container records that are incremented/decremented somewhere."""
    out = set()
    for (rec, fld), ws in sm.writers.items():
        t = sm.fields.get((rec, fld), '')
        if '*' in t or '(' in t or fld in ('tid',):
            continue
        if rec in sm.lockables or rec.startswith('qhasharr'):
            out.add((rec, fld))
    return out


def rule_a2(prog, rep, om, units, sm, rid='A2'):
    rep.rule(rid, 'within one operation no may-fail allocation is reachable after the container was already mutated '
                  '(counter written directly or through a callee): allocate everything, then commit')
    counters = {('qtreetbl_s', 'num'), ('qhashtbl_s', 'num'), ('qlisttbl_s', 'num'), ('qlist_s', 'num'),
                ('qlist_s', 'datasum'), ('qvector_s', 'num'), ('qhasharr_data_s', 'num'),
                ('qhasharr_data_s', 'usedslots')}
    rep.notes['counter_fields'] = sorted('%s.%s' % c for c in counters)

    def counter_target(x):
        k = x.get('kind')
        tgt = None
        if k == 'UnaryOperator' and x.get('opcode') in ('++', '--'):
            tgt = strip(children(x)[0])
        elif k == 'CompoundAssignOperator':
            tgt = strip(children(x)[0])
        elif k == 'BinaryOperator' and x.get('opcode') == '=':
            if int_value_(children(x)[1]) == 0:
                return None          # initialisation / clear: not the commit of an element
            tgt = strip(children(x)[0])
        if tgt is not None and tgt.get('kind') == 'MemberExpr' and tgt.get('_field') \
                and (tgt['_field'][0], tgt['_field'][1]) in counters:
            return tgt
        return None

    # summaries over the whole program: mutates (writes a counter), may_alloc (contains a may-fail allocation)
    mutates, may_alloc = set(), set()
    for f in prog.funcs.values():
        if any(counter_target(x) is not None for x in walk(f.body)):
            mutates.add(f.key)
        if any(x.get('kind') == 'CallExpr' and prog.callee_name(x) in ALLOCATORS for x in walk(f.body)):
            may_alloc.add(f.key)
    changed = True
    while changed:
        changed = False
        for f in prog.funcs.values():
            for x in walk(f.body):
                if x.get('kind') != 'CallExpr':
                    continue
                for c in om.call_targets(f, x):
                    if c.key in mutates and f.key not in mutates:
                        mutates.add(f.key)
                        changed = True
                    if c.key in may_alloc and f.key not in may_alloc:
                        may_alloc.add(f.key)
                        changed = True

    def node_allocs(f, m):
        out = []
        if isinstance(m.ast, dict) and m.kind != 'macro':
            for c in walk(m.ast):
                if c.get('kind') == 'CallExpr':
                    if prog.callee_name(c) in ALLOCATORS:
                        out.append(c)
                    elif any(t.key in may_alloc and t.key not in mutates_only_free.get(t.key, ()) for t in om.call_targets(f, c)):
                        out.append(c)
        return out
    mutates_only_free = {}

    for rel in units:
        for f in sorted(prog.funcs_in(rel), key=lambda x: x.line or 0):
            muts = []
            for n in f.cfg.nodes:
                if n.id not in f.cfg.reachable or not isinstance(n.ast, dict) or n.kind == 'macro':
                    continue
                for x in walk(n.ast):
                    t = counter_target(x)
                    if t is not None:
                        # the constructor / clear writing 0 is not a commit of an element
                        muts.append((n, x, 'writes %s' % canon(t)))
                    elif x.get('kind') == 'CallExpr':
                        for c in om.call_targets(f, x):
                            if c.key in mutates and c.key != f.key:
                                muts.append((n, x, 'calls %s() which updates the container' % c.name))
                                break
            loopheads = {h.id for (h, _s) in f.cfg.loops}
            for (n, x, what) in muts:
                rep.instance(rid)
                # forward reachability within the same loop iteration (do not cross loop heads)
                seen = set()
                work = [s for (s, _l) in n.succs]
                bad = None
                # allocation later in the same node (evaluation order): `x->num++; return new_obj()` style is two nodes,
                # but `f(a), g(b)` in one expression is not split: check calls after x in this node
                after = False
                for c in walk(n.ast):
                    if c is x:
                        after = True
                        continue
                    if after and c.get('kind') == 'CallExpr' and c is not x and prog.callee_name(c) in ALLOCATORS:
                        bad = (n, c)
                while work and bad is None:
                    m = work.pop()
                    if m.id in seen or m.id in loopheads:
                        continue
                    seen.add(m.id)
                    al = node_allocs(f, m)
                    if al:
                        bad = (m, al[0])
                        break
                    for (s, _l) in m.succs:
                        work.append(s)
                ok = bad is None
                rep.oblige(rid, ok, {'function': f.name, 'mutation': what, 'line': x.get('_line')})
                if not ok:
                    m, c = bad
                    rep.violation(rid, f, x.get('_line'), 'mut:%s' % what.split()[1],
                                  '%s %s at line %s and a may-fail allocation (%s at line %s) is still ahead in the same operation: '
                                  'if it fails the call reports failure with the container already changed'
                                  % (f.name, what, x.get('_line'), canon(children(c)[0])[:30] + '()', c.get('_line')))


# --------------------------------------------------------------------------------------
# M5: realloc() is never asked for zero bytes

NONZERO_FIELDS = {('qvector_s', 'objsize'): 'the constructor rejects 0 and the field is immutable afterwards (rule V1)'}


def _lv_path(e):
    """access path, also for a dereferenced simple pointer (`*p`)"""
    p = access_path(e)
    if p is None:
        s_ = strip(e)
        if s_.get('kind') == 'UnaryOperator' and s_.get('opcode') == '*':
            q = access_path(children(s_)[0])
            return None if q is None else '*' + q
    return p


def _nonzero_fact(cond):
    """(path, nz_on_true): the integer lvalue the condition tests against zero and on which outcome it is non-zero"""
    c = strip_parens(cond)
    if c.get('kind') == 'BinaryOperator' and c.get('opcode') in ('==', '!=', '>'):
        a, b = children(c)
        if int_value_(b) == 0 and _lv_path(a):
            return _lv_path(a), c.get('opcode') in ('!=', '>')
        if int_value_(a) == 0 and _lv_path(b) and c.get('opcode') in ('==', '!='):
            return _lv_path(b), c.get('opcode') == '!='
    elif _lv_path(c) and not qtype(strip(c)).rstrip().endswith('*'):
        return _lv_path(c), True
    return None, None


class NonZero:
    """Must-analysis: integer locals/params known to be non-zero at each node."""

    def __init__(self, f):
        from .dataflow import node_defs
        self.f = f
        cfg = f.cfg
        names = {}
        for x in walk(f.decl):
            if x.get('kind') in ('VarDecl', 'ParmVarDecl'):
                names[x.get('id')] = x.get('name')
        self.IN = {cfg.entry.id: frozenset()}
        work = [cfg.entry]
        while work:
            n = work.pop()
            st = set(self.IN[n.id])
            for (var, rhs, kind, _l) in node_defs(n):
                nm = names.get(var)
                if nm is None:
                    continue
                if kind in ('init', 'assign') and rhs is not None and self.expr_nonzero(rhs, st):
                    st.add(nm)
                elif kind == 'update' and rhs is not None and rhs.get('kind') == 'CompoundAssignOperator' \
                        and rhs.get('opcode') == '*=' and nm in st and self.expr_nonzero(children(rhs)[1], st):
                    pass
                elif kind == 'update' and rhs is not None and rhs.get('kind') == 'UnaryOperator' and rhs.get('opcode') == '++' \
                        and 'unsigned' in (((strip(children(rhs)[0]).get('type') or {}).get('desugaredQualType')) or qtype(strip(children(rhs)[0]))):
                    st.add(nm)
                else:
                    st.discard(nm)
            for (s, lab) in n.succs:
                st2 = set(st)
                if n.kind == 'cond' and lab in ('T', 'F') and isinstance(n.ast, dict):
                    c = strip_parens(n.ast)
                    v, nz_on_true = None, None
                    if c.get('kind') == 'BinaryOperator' and c.get('opcode') in ('==', '!=', '>'):
                        a, b = children(c)
                        if int_value_(b) == 0 and access_path(a):
                            v = access_path(a)
                            nz_on_true = c.get('opcode') in ('!=', '>')
                        elif int_value_(a) == 0 and access_path(b) and c.get('opcode') in ('==', '!='):
                            v = access_path(b)
                            nz_on_true = c.get('opcode') == '!='
                    elif access_path(c) and not qtype(strip(c)).rstrip().endswith('*'):
                        v, nz_on_true = access_path(c), True
                    if v is not None and ((lab == 'T') == nz_on_true):
                        st2.add(v)
                old = self.IN.get(s.id)
                new = frozenset(st2) if old is None else (old & frozenset(st2))
                if old is None or new != old:
                    self.IN[s.id] = new
                    work.append(s)

    def expr_nonzero(self, e, st):
        s = strip(e)
        v = int_value_(s)
        if v is not None and not isinstance(v, str):
            return v != 0
        k = s.get('kind')
        if k == 'UnaryExprOrTypeTraitExpr':
            return True
        if k == 'DeclRefExpr':
            return access_path(s) in st
        if k == 'MemberExpr':
            fo = s.get('_field')
            return bool(fo) and (fo[0], fo[1]) in NONZERO_FIELDS
        if k == 'ConditionalOperator':
            c, a, b = children(s)
            v, nz_on_true = _nonzero_fact(c)
            sa, sb = set(st), set(st)
            if v is not None:
                (sa if nz_on_true else sb).add(v)
            return self.expr_nonzero(a, sa) and self.expr_nonzero(b, sb)
        if k == 'UnaryOperator' and s.get('opcode') == '*' and _lv_path(s) in st:
            return True                 # *p tested non-zero by the enclosing ?: (no store can intervene inside one expression)
        if k == 'BinaryOperator' and s.get('opcode') == '*':
            return all(self.expr_nonzero(c, st) for c in children(s))
        if k == 'BinaryOperator' and s.get('opcode') == '+':
            a, b = children(s)
            ua = 'unsigned' in (((strip(a).get('type') or {}).get('desugaredQualType')) or qtype(strip(a)))
            ub = 'unsigned' in (((strip(b).get('type') or {}).get('desugaredQualType')) or qtype(strip(b)))
            return (ua and ub) and (self.expr_nonzero(a, st) or self.expr_nonzero(b, st))
        return False

    def at(self, node, e):
        return self.expr_nonzero(e, set(self.IN.get(node.id, ())))


def rule_m5(prog, rep, units, rid='M5'):
    rep.rule(rid, 'realloc() is never asked for zero bytes (realloc(p, 0) frees p; a NULL result read as "failed, keep p" leaves p dangling)')
    for rel in units:
        for f in sorted(prog.funcs_in(rel), key=lambda x: x.line or 0):
            nz = None
            for n in f.cfg.nodes:
                if n.id not in f.cfg.reachable or not isinstance(n.ast, dict) or n.kind == 'macro':
                    continue
                for x in walk(n.ast):
                    if x.get('kind') == 'CallExpr' and prog.callee_name(x) == 'realloc' and len(children(x)) > 2:
                        rep.instance(rid)
                        if nz is None:
                            nz = NonZero(f)
                        ok = nz.at(n, children(x)[2])
                        rep.oblige(rid, ok, {'function': f.name, 'size': canon(children(x)[2])[:60]})
                        if not ok:
                            rep.violation(rid, f, x.get('_line'), 'realloc:%s' % canon(children(x)[1])[:30],
                                          'realloc(%s, %s): the size is not proven non-zero on all paths; for 0 the block is freed '
                                          'and NULL returned, which the caller reads as failure and keeps using %s'
                                          % (canon(children(x)[1])[:30], canon(children(x)[2])[:40], canon(children(x)[1])[:30]))
    rep.notes['nonzero_fields'] = {'%s.%s' % k: v for k, v in NONZERO_FIELDS.items()}


def rule_m6(prog, rep, units, rid='M6'):
    """free() receives the pointer the allocator returned: a local that holds an allocation and is later handed to free() is
    never advanced (++, +=, = p + k) in between - a cursor over the block is a separate variable."""
    from .dataflow import ReachingDefs, origins
    rep.rule(rid, 'the pointer handed to free() is the block\'s base: a local holding an allocation is not advanced before it is freed')
    for rel in units:
        for f in sorted(prog.funcs_in(rel), key=lambda x: x.line or 0):
            if f.body is None:
                continue
            rd = None
            for n in f.cfg.nodes:
                if not isinstance(n.ast, dict) or n.kind == 'macro' or n.id not in f.cfg.reachable:
                    continue
                for x in walk(n.ast):
                    if x.get('kind') != 'CallExpr' or prog.callee_name(x) != 'free' or len(children(x)) < 2:
                        continue
                    a = strip(children(x)[1])
                    if a.get('kind') != 'DeclRefExpr' or (a.get('_ref') or ('',))[0] != 'local':
                        continue
                    rd = rd or ReachingDefs(f)
                    if n.id not in rd.IN:
                        continue
                    ds = rd.reaching(n.id, a['_ref'][1])
                    fresh = any(d.kind in ('init', 'assign') and d.rhs is not None and any(
                        t.startswith('fresh:') for t in origins(rd, d.node, d.rhs)) for d in ds)
                    if not fresh:
                        continue
                    rep.instance(rid)
                    moved = [d for d in ds if d.kind == 'update' or (d.kind == 'assign' and d.rhs is not None and
                             strip(d.rhs).get('kind') == 'BinaryOperator' and strip(d.rhs).get('opcode') in ('+', '-') and
                             any(y.get('kind') == 'DeclRefExpr' and (y.get('_ref') or ('', None))[1] == a['_ref'][1] for y in walk(d.rhs)))]
                    ok = not moved
                    rep.oblige(rid, ok, {'function': f.name, 'line': x.get('_line'), 'freed': canon(a)})
                    if not ok:
                        rep.violation(rid, f, x.get('_line'), 'free-moved:%s' % canon(a),
                                      'free(%s): %s holds an allocation but is advanced at line %s before it is freed - free() then '
                                      'receives a pointer into the middle of the block' % (canon(a), canon(a), moved[0].line))


def rule_a7(prog, rep, units, rid='A7'):
    """An allocation failure stays visible: on a path on which errno was set to ENOMEM, no later store gives errno another
    value before the function returns (e.g. a trailing `if (!found) errno = ENOENT;` that also swallows the failure path) -
    the caller would take the failure for the ordinary negative outcome (end of a walk, key not found)."""
    rep.rule(rid, 'an ENOMEM outcome is not overwritten: after errno = ENOMEM no path stores another value to errno before returning')
    for rel in units:
        for f in sorted(prog.funcs_in(rel), key=lambda x: x.line or 0):
            if f.body is None:
                continue

            def errno_store(n):
                """value stored to errno by this node: 'ENOMEM', 'other', or None"""
                if not isinstance(n.ast, dict) or n.kind == 'macro':
                    return None
                out = None
                for x in walk(n.ast):
                    if x.get('kind') == 'BinaryOperator' and x.get('opcode') == '=' and '__errno_location' in canon(children(x)[0]):
                        v = int_value_(children(x)[1])
                        out = 'ENOMEM' if v == 12 else 'other'
                return out
            stores = [(n, errno_store(n)) for n in f.cfg.nodes]
            if not any(k == 'ENOMEM' for (_n, k) in stores):
                continue

            def transfer(n, st):
                k = errno_store(n)
                if k == 'ENOMEM':
                    return frozenset({('nomem', n.line)})
                if k == 'other' and st:
                    hits.append((n.line, sorted(st)[0][1]))
                    return frozenset()
                return st
            hits = []
            propagate(f, frozenset(), transfer)
            rep.instance(rid)
            rep.oblige(rid, not hits, {'function': f.name, 'enomem_stores': sum(1 for (_n, k) in stores if k == 'ENOMEM')})
            for (line, src) in sorted(set(hits)):
                rep.violation(rid, f, line, 'errno-overwrite:%s' % src,
                              'errno set to ENOMEM at line %s is overwritten at line %s on the same path: the allocation failure is '
                              'reported to the caller as the ordinary negative outcome' % (src, line))


def rule_a8(prog, rep, units, rid='A8'):
    """Constructors: the object's method table is filled field by field.  Handing the half-built object to a function that
    dispatches through one of its method fields (`obj->clear(obj)`) before that field was assigned calls a NULL function
    pointer - typically the destructor reused on an allocation-failure exit."""
    rep.rule(rid, 'in a constructor the object is not handed to a function that dispatches through one of its method fields before '
                  'that field has been assigned (e.g. the destructor called on an early failure exit)')
    # methods dispatched through a parameter, per function (transitive)
    uses = {}
    for f in prog.funcs.values():
        if f.body is None:
            continue
        u = {}
        for x in walk(f.body):
            if x.get('kind') == 'CallExpr':
                c = strip(children(x)[0])
                if c.get('kind') == 'MemberExpr' and c.get('isArrow'):
                    b = strip(children(c)[0])
                    if b.get('kind') == 'DeclRefExpr' and (b.get('_ref') or ('',))[0] == 'param':
                        u.setdefault(b['_ref'][3], set()).add(c.get('name'))
        uses[f.key] = u
    changed = True
    rounds = 0
    while changed and rounds < 5:
        changed = False
        rounds += 1
        for f in prog.funcs.values():
            if f.body is None:
                continue
            for x in walk(f.body):
                if x.get('kind') != 'CallExpr':
                    continue
                for g in prog.callees(f.unit, x):
                    gu = uses.get(getattr(g, 'key', None))
                    if not gu:
                        continue
                    for i, a in enumerate(children(x)[1:]):
                        sa = strip(a)
                        if i in gu and sa.get('kind') == 'DeclRefExpr' and (sa.get('_ref') or ('',))[0] == 'param':
                            cur = uses[f.key].setdefault(sa['_ref'][3], set())
                            if not gu[i] <= cur:
                                cur |= gu[i]
                                changed = True
    for rel in units:
        for f in sorted(prog.funcs_in(rel), key=lambda x: x.line or 0):
            if f.body is None:
                continue
            # a constructor: assigns function addresses to fields of a local object
            objs = {}
            for x in walk(f.body):
                if x.get('kind') == 'BinaryOperator' and x.get('opcode') == '=':
                    l, r = strip(children(x)[0]), strip(children(x)[1])
                    if l.get('kind') == 'MemberExpr' and l.get('isArrow') and r.get('kind') == 'DeclRefExpr' and (r.get('_ref') or ('',))[0] == 'fn':
                        b = strip(children(l)[0])
                        if b.get('kind') == 'DeclRefExpr' and (b.get('_ref') or ('',))[0] == 'local':
                            objs.setdefault(b['_ref'][2], set()).add(l.get('name'))
            if not objs:
                continue
            hits = []

            def transfer(n, st):
                if not isinstance(n.ast, dict) or n.kind == 'macro':
                    return st
                s = set(st)
                for ev in node_events(n):
                    if ev[0] == 'assign':
                        l = strip(ev[1])
                        if l.get('kind') == 'MemberExpr' and l.get('isArrow') and canon(children(l)[0]) in objs:
                            s.add((canon(children(l)[0]), l.get('name')))
                    elif ev[0] == 'call':
                        call = ev[1]
                        c0 = strip(children(call)[0])
                        # direct dispatch through the object itself
                        if c0.get('kind') == 'MemberExpr' and c0.get('isArrow') and canon(children(c0)[0]) in objs:
                            if (canon(children(c0)[0]), c0.get('name')) not in s:
                                hits.append((call.get('_line'), canon(children(c0)[0]), c0.get('name'), None))
                        for g in prog.callees(f.unit, call):
                            gu = uses.get(getattr(g, 'key', None))
                            if not gu:
                                continue
                            for i, a in enumerate(children(call)[1:]):
                                o = canon(strip(a))
                                if i in gu and o in objs:
                                    missing = sorted(m for m in gu[i] if m in objs[o] and (o, m) not in s)
                                    if missing:
                                        hits.append((call.get('_line'), o, missing[0], g.name))
                return frozenset(s)
            propagate(f, frozenset(), transfer)
            rep.instance(rid)
            rep.oblige(rid, not hits, {'constructor': f.name, 'objects': sorted(objs)})
            for (line, o, m, gname) in sorted(set(hits)):
                rep.violation(rid, f, line, 'early-dispatch:%s' % m,
                              '%s: %s is %s on a path on which %s->%s has not been assigned yet: a NULL function pointer is called'
                              % (f.name, o, ('handed to %s(), which calls %s->%s()' % (gname, o, m)) if gname else 'used to dispatch', o, m))


# --------------------------------------------------------------------------------------
# A9: a half-built object is not handed to a clean-up routine that walks a part it does not have yet

def _field_derefs(prog, g, pidx, depth=0, seen=None):
    """Where does g (or a function it hands the object on to) dereference a pointer FIELD of its pidx-th parameter?
    -> list of (field, frozenset of fields of the same object that must be non-zero for the dereference to be reached, text)"""
    seen = seen or set()
    if getattr(g, 'body', None) is None or (g.key, pidx) in seen or depth > 3 or pidx >= len(g.params):
        return []
    seen = seen | {(g.key, pidx)}
    P = g.params[pidx].get('name')
    cfg = g.cfg
    dom = cfg.dominators()

    def field_of(e):
        e = strip(e)
        if e.get('kind') == 'MemberExpr' and e.get('isArrow') and access_path(children(e)[0]) == P:
            return e.get('name')
        return None

    def nonzero_needed(c, lab):
        """fields of P that must be non-zero for condition c to come out as lab"""
        out = set()
        c = strip_parens(c)
        truth = lab == 'T'
        while c.get('kind') == 'UnaryOperator' and c.get('opcode') == '!':
            truth = not truth
            c = strip_parens(children(c)[0])
        if c.get('kind') == 'BinaryOperator' and c.get('opcode') in ('<', '<=', '>', '>=', '!=', '=='):
            a, b = children(c)
            fa, fb = field_of(a), field_of(b)
            op = c['opcode']
            if fb and ((op == '<' and truth) or (op == '>=' and not truth)):
                out.add(fb)                                  # x < P->G
            if fa and ((op == '>' and truth) or (op == '<=' and not truth)):
                out.add(fa)                                  # P->G > x
            if fa and int_value_(strip(b)) == 0 and ((op == '!=' and truth) or (op == '==' and not truth)):
                out.add(fa)
            if fb and int_value_(strip(a)) == 0 and ((op == '!=' and truth) or (op == '==' and not truth)):
                out.add(fb)
        else:
            fa = field_of(c)
            if fa and truth:
                out.add(fa)
        return out

    def guards_of(d):
        need = set()
        for c in cfg.nodes:
            if c.kind != 'cond' or not isinstance(c.ast, dict) or c.id not in dom.get(d.id, ()) or c is d:
                continue
            for lab in ('T', 'F'):
                others = [s for (s, l2) in c.succs if l2 != lab]
                # d reachable only through the lab edge?
                reach = False
                seen_, work = set(), list(others)
                while work and not reach:
                    m = work.pop()
                    if m is d:
                        reach = True
                        break
                    if m.id in seen_ or m is c:
                        continue
                    seen_.add(m.id)
                    work += [s for (s, _l) in m.succs]
                if not reach:
                    need |= nonzero_needed(c.ast, lab)
        return need
    out = []
    for d in cfg.nodes:
        if d.id not in cfg.reachable or not isinstance(d.ast, dict) or d.kind == 'macro':
            continue
        for x in walk(d.ast):
            k = x.get('kind')
            F = None
            if k == 'ArraySubscriptExpr':
                F = field_of(children(x)[0])
            elif k == 'UnaryOperator' and x.get('opcode') == '*':
                F = field_of(children(x)[0])
            elif k == 'MemberExpr' and x.get('isArrow'):
                F = field_of(children(x)[0])
            if F:
                own_guard = set()
                if d.kind == 'cond':
                    pass
                out.append((F, frozenset(guards_of(d)), '%s:%s %s' % (g.relfile, x.get('_line'), canon(x)[:40])))
            if k == 'CallExpr':
                for h in prog.callees(g.unit, x):
                    if getattr(h, 'body', None) is None:
                        continue
                    for j, a in enumerate(children(x)[1:]):
                        if access_path(a) == P:
                            gd = frozenset(guards_of(d))
                            for (F2, g2, t2) in _field_derefs(prog, h, j, depth + 1, seen):
                                out.append((F2, g2 | gd, t2))
    return out


def rule_a9(prog, rep, units, rid='A9'):
    """Failure paths of constructors: the object is zero-initialised, then built field by field; when a later allocation fails
    the half-built object goes to the container's own free()/clear().  That routine walks a pointer field (the slot array)
    under guards over other fields (the range, the count).  The walk is harmless while those guard fields are still zero;
    once one path has given every guard field a value while the walked field is still NULL, the clean-up dereferences NULL."""
    rep.rule(rid, 'a zero-initialised, half-built object is handed to a clean-up routine only while, for every pointer field the routine '
                  'dereferences and that is still NULL, at least one of the fields guarding that dereference is still zero')
    for rel in units:
        prog.unit(rel)
        for f in sorted(prog.funcs_in(rel), key=lambda x: x.line or 0):
            if f.body is None:
                continue
            cfg = f.cfg
            # zero-initialised objects: O = calloc(..)  |  O = malloc(..); memset(O, 0, ..)
            objs = {}
            for n in cfg.nodes:
                if n.id not in cfg.reachable or not isinstance(n.ast, dict) or n.kind == 'macro':
                    continue
                for ev in node_events(n):
                    if ev[0] == 'decl' and ev[2] is not None and strip(ev[2]).get('kind') == 'CallExpr' and \
                            prog.callee_name(strip(ev[2])) == 'calloc':
                        objs[ev[1].get('name')] = n
                    elif ev[0] == 'assign' and strip(ev[2]).get('kind') == 'CallExpr' and prog.callee_name(strip(ev[2])) == 'calloc' \
                            and strip(ev[1]).get('kind') == 'DeclRefExpr':
                        objs[canon(ev[1])] = n
                    elif ev[0] == 'call' and prog.callee_name(ev[1]) == 'memset' and len(children(ev[1])) > 2 and \
                            int_value_(strip(children(ev[1])[2])) == 0:
                        a0 = strip(children(ev[1])[1])
                        while a0.get('kind') in ('ParenExpr', 'CStyleCastExpr', 'ImplicitCastExpr') and children(a0):
                            a0 = strip(children(a0)[0])
                        if a0.get('kind') == 'DeclRefExpr':
                            objs[canon(a0)] = n
            for O, start in sorted(objs.items()):
                # calls that take O
                sites = []
                for n in cfg.nodes:
                    if n.id not in cfg.reachable or not isinstance(n.ast, dict) or n.kind == 'macro':
                        continue
                    for ev in node_events(n):
                        if ev[0] == 'call':
                            for j, a in enumerate(children(ev[1])[1:]):
                                if access_path(a) == O:
                                    for h in prog.callees(f.unit, ev[1]):
                                        if getattr(h, 'body', None) is not None:
                                            ds = _field_derefs(prog, h, j)
                                            if ds:
                                                sites.append((n, ev[1], h, ds))
                if not sites:
                    continue
                relevant = {F for (_n, _c, _h, ds) in sites for (F, gs, _t) in ds} | {G for (_n, _c, _h, ds) in sites for (_F, gs, _t) in ds for G in gs}
                site_nodes = {n.id: (call, h, ds) for (n, call, h, ds) in sites}
                for n_id in site_nodes:
                    rep.instance(rid)
                bad = {}
                seen = set()
                work = [(s, frozenset()) for (s, _l) in start.succs]
                steps = 0
                while work:
                    steps += 1
                    if steps > 20000:
                        break
                    m, assigned = work.pop()
                    if (m.id, assigned) in seen or m is cfg.exit:
                        continue
                    seen.add((m.id, assigned))
                    a2 = set(assigned)
                    if isinstance(m.ast, dict) and m.kind != 'macro':
                        if m.id in site_nodes and m.id not in bad:
                            call, h, ds = site_nodes[m.id]
                            for (F, gs, txt) in ds:
                                if F not in a2 and all(G in a2 for G in gs):
                                    bad[m.id] = (call, h, F, gs, txt)
                                    break
                        for ev in node_events(m):
                            if ev[0] == 'assign':
                                l = strip(ev[1])
                                if l.get('kind') == 'MemberExpr' and l.get('isArrow') and access_path(children(l)[0]) == O and l.get('name') in relevant:
                                    if is_null(ev[2]) or int_value_(strip(ev[2])) == 0:
                                        a2.discard(l.get('name'))
                                    else:
                                        a2.add(l.get('name'))
                    elif m.kind == 'macro' and isinstance(m.ast, dict):
                        pass
                    for (s, lab) in m.succs:
                        a3 = a2
                        if m.kind == 'cond' and isinstance(m.ast, dict) and lab in ('T', 'F'):
                            t = cond_null_test(m.ast)
                            if t and t[0].startswith(O + '->') and t[0].count('->') == 1:
                                fld = t[0].split('->')[1]
                                if fld in relevant and ((lab == 'T') == t[1]):
                                    a3 = set(a2)
                                    a3.discard(fld)            # known NULL on this edge
                        work.append((s, frozenset(a3)))
                for n_id, (call, h, ds) in site_nodes.items():
                    ok = n_id not in bad
                    rep.oblige(rid, ok, {'function': f.name, 'object': O, 'cleanup': h.name})
                    if not ok:
                        call, h, F, gs, txt = bad[n_id]
                        rep.violation(rid, f, call.get('_line'), 'halfbuilt:%s' % F,
                                      '%s hands the half-built %s to %s() on a path on which %s->%s is still NULL while %s: the clean-up '
                                      'dereferences it (%s) - the failure is turned into a crash instead of being reported'
                                      % (f.name, O, h.name, O, F,
                                         ('every field guarding its walk (%s) has already been given a value' % ', '.join(sorted(gs)))
                                         if gs else 'nothing guards the dereference', txt))
