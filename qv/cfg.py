"""Control-flow graph over the clang JSON AST of one function.

Node kinds:
  'entry' / 'exit'
  'act'    evaluate `ast` (full expression, VarDecl with initialiser, ReturnStmt, GotoStmt)
  'cond'   atomic condition `ast`; successors labelled 'T' / 'F'
  'macro'  an atomic lock-macro event; info = (macro name, statement)
  'join'   no-op (loop heads, labels, case labels); info says which
  'switch' evaluate the switch operand; successors labelled ('case', valueexpr) / 'default'
           / 'nodefault'
Conditions are decomposed at && || ! so evaluation order is explicit.
"""
from .frontend import strip, strip_parens, children
from .expr import int_value

ATOMIC_MACROS = ('Q_MUTEX_ENTER', 'Q_MUTEX_LEAVE', 'Q_MUTEX_DESTROY')


class Node:
    __slots__ = ('id', 'kind', 'ast', 'succs', 'preds', 'info', 'line')

    def __init__(self, id, kind, ast=None, info=None, line=None):
        self.id = id
        self.kind = kind
        self.ast = ast
        self.succs = []
        self.preds = []
        self.info = info
        self.line = line if line is not None else (ast.get('_line') if isinstance(ast, dict) else None)

    def __repr__(self):
        return 'N%d(%s@%s)' % (self.id, self.kind, self.line)


class CFG:
    def __init__(self, func, atomic_macros=True):
        self.func = func
        self.atomic_macros = atomic_macros
        self.nodes = []
        self.entry = self.new('entry', line=func.line)
        self.exit = self.new('exit', line=func.decl.get('_endline'))
        self.labels = {}
        self.pending_gotos = []
        self.loops = []   # (head node, stmt, set of body node ids filled lazily)
        ends = self.stmt(func.body, [(self.entry, None)], None, None)
        ret = self.new('act', {'kind': 'ReturnStmt', '_implicit': True, 'inner': [],
                               '_line': func.decl.get('_endline'), '_file': func.file})
        self.link(ends, ret)
        self.link([(ret, None)], self.exit)
        self.implicit_return = ret
        for n, lid in self.pending_gotos:
            tgt = self.labels.get(lid)
            if tgt is None:
                raise RuntimeError('unresolved goto in %s' % func.name)
            self.link([(n, None)], tgt)
        self._prune_unreachable()

    def new(self, kind, ast=None, info=None, line=None):
        n = Node(len(self.nodes), kind, ast, info, line)
        self.nodes.append(n)
        return n

    def link(self, froms, to):
        for (f, lab) in froms:
            f.succs.append((to, lab))
            to.preds.append((f, lab))

    def _prune_unreachable(self):
        seen = set()
        work = [self.entry]
        while work:
            n = work.pop()
            if n.id in seen:
                continue
            seen.add(n.id)
            for s, _ in n.succs:
                work.append(s)
        self.reachable = seen
        for n in self.nodes:
            n.preds = [(p, l) for (p, l) in n.preds if p.id in seen]

    def returns(self):
        """Nodes that leave the function (ReturnStmt acts, including the implicit one)."""
        return [n for n in self.nodes if n.id in self.reachable and n.kind == 'act'
                and isinstance(n.ast, dict) and n.ast.get('kind') == 'ReturnStmt']

    # ---- conditions
    def cond(self, e, ins):
        s = strip_parens(e)
        k = s.get('kind')
        if k == 'BinaryOperator' and s.get('opcode') == '&&':
            ch = children(s)
            t1, f1 = self.cond(ch[0], ins)
            t2, f2 = self.cond(ch[1], t1)
            return t2, f1 + f2
        if k == 'BinaryOperator' and s.get('opcode') == '||':
            ch = children(s)
            t1, f1 = self.cond(ch[0], ins)
            t2, f2 = self.cond(ch[1], f1)
            return t1 + t2, f2
        if k == 'UnaryOperator' and s.get('opcode') == '!':
            t, f = self.cond(children(s)[0], ins)
            return f, t
        n = self.new('cond', e)
        self.link(ins, n)
        v = int_value(s)
        if v is not None and not isinstance(v, str):
            # constant condition (while (true), do {} while (0)): only one branch is feasible
            return ([(n, 'T')], []) if v else ([], [(n, 'F')])
        return [(n, 'T')], [(n, 'F')]

    def expr(self, e, ins):
        n = self.new('act', e)
        self.link(ins, n)
        return [(n, None)]

    # ---- statements
    def stmt(self, s, ins, brk, cont):
        if not s or not isinstance(s, dict) or 'kind' not in s:
            return ins
        k = s['kind']
        if self.atomic_macros and s.get('_macro') in ATOMIC_MACROS and not s.get('_macro_arg') \
                and k != 'CompoundStmt' and k.endswith('Stmt'):
            n = self.new('macro', s, info=(s['_macro'], s))
            self.link(ins, n)
            return [(n, None)]
        if k == 'CompoundStmt':
            cur = ins
            for c in children(s):
                cur = self.stmt(c, cur, brk, cont)
            return cur
        if k == 'IfStmt':
            inner = s['inner']
            c, then = inner[0], inner[1]
            els = inner[2] if len(inner) > 2 else None
            t, f = self.cond(c, ins)
            outs = self.stmt(then, t, brk, cont)
            if els:
                outs = outs + self.stmt(els, f, brk, cont)
            else:
                outs = outs + f
            return outs
        if k == 'WhileStmt':
            c, body = s['inner'][0], s['inner'][1]
            head = self.new('join', None, info=('loophead', s), line=s.get('_line'))
            self.link(ins, head)
            t, f = self.cond(c, [(head, None)])
            mybrk, mycont = [], []
            outs = self.stmt(body, t, mybrk, mycont)
            self.link(outs + mycont, head)
            self.loops.append((head, s))
            return f + mybrk
        if k == 'DoStmt':
            body, c = s['inner'][0], s['inner'][1]
            head = self.new('join', None, info=('loophead', s), line=s.get('_line'))
            self.link(ins, head)
            mybrk, mycont = [], []
            outs = self.stmt(body, [(head, None)], mybrk, mycont)
            t, f = self.cond(c, outs + mycont)
            self.link(t, head)
            self.loops.append((head, s))
            return f + mybrk
        if k == 'ForStmt':
            init, _condvar, c, inc, body = s['inner']
            cur = ins
            if init:
                cur = self.stmt(init, cur, None, None)
            head = self.new('join', None, info=('loophead', s), line=s.get('_line'))
            self.link(cur, head)
            if c:
                t, f = self.cond(c, [(head, None)])
            else:
                t, f = [(head, None)], []
            mybrk, mycont = [], []
            outs = self.stmt(body, t, mybrk, mycont)
            back = outs + mycont
            if inc:
                back = self.expr(inc, back)
            self.link(back, head)
            self.loops.append((head, s))
            return f + mybrk
        if k == 'SwitchStmt':
            inner = children(s)
            c, body = inner[0], inner[-1]
            sw = self.new('switch', c, info=('switch', s))
            self.link(ins, sw)
            mybrk = []
            ctx = {'sw': sw, 'has_default': False}
            outs = self.switch_body(body, [], mybrk, cont, ctx)
            res = outs + mybrk
            if not ctx['has_default']:
                res = res + [(sw, 'nodefault')]
            return res
        if k in ('CaseStmt', 'DefaultStmt'):
            raise RuntimeError('case label outside a switch body')
        if k == 'BreakStmt':
            brk.extend(ins)
            return []
        if k == 'ContinueStmt':
            cont.extend(ins)
            return []
        if k == 'ReturnStmt':
            n = self.new('act', s)
            self.link(ins, n)
            self.link([(n, None)], self.exit)
            return []
        if k == 'GotoStmt':
            n = self.new('act', s)
            self.link(ins, n)
            self.pending_gotos.append((n, s['targetLabelDeclId']))
            return []
        if k == 'LabelStmt':
            n = self.new('join', None, info=('label', s.get('name')), line=s.get('_line'))
            self.labels[s['declId']] = n
            self.link(ins, n)
            cur = [(n, None)]
            for c in children(s):
                cur = self.stmt(c, cur, brk, cont)
            return cur
        if k == 'DeclStmt':
            cur = ins
            for d in children(s):
                if d.get('kind') == 'VarDecl':
                    n = self.new('act', d)
                    self.link(cur, n)
                    cur = [(n, None)]
            return cur
        if k == 'NullStmt':
            return ins
        return self.expr(s, ins)

    def switch_body(self, body, ins, brk, cont, ctx):
        cur = ins
        stmts = children(body) if body.get('kind') == 'CompoundStmt' else [body]
        for st in stmts:
            cur = self.switch_stmt(st, cur, brk, cont, ctx)
        return cur

    def switch_stmt(self, st, cur, brk, cont, ctx):
        k = st.get('kind')
        if k == 'CaseStmt':
            inner = children(st)
            val, sub = inner[0], inner[-1]
            lab = self.new('join', None, info=('case', val), line=st.get('_line'))
            self.link([(ctx['sw'], ('case', lab.id))], lab)
            self.link(cur, lab)
            return self.switch_stmt(sub, [(lab, None)], brk, cont, ctx)
        if k == 'DefaultStmt':
            ctx['has_default'] = True
            inner = children(st)
            lab = self.new('join', None, info=('default',), line=st.get('_line'))
            self.link([(ctx['sw'], 'default')], lab)
            self.link(cur, lab)
            return self.switch_stmt(inner[-1], [(lab, None)], brk, cont, ctx)
        return self.stmt(st, cur, brk, cont)

    # ---- utilities
    def dominators(self):
        """Classic iterative dominator sets (small functions: fine)."""
        ids = [n.id for n in self.nodes if n.id in self.reachable]
        dom = {i: set(ids) for i in ids}
        dom[self.entry.id] = {self.entry.id}
        changed = True
        while changed:
            changed = False
            for i in ids:
                if i == self.entry.id:
                    continue
                n = self.nodes[i]
                ps = [p.id for p, _ in n.preds]
                new = set.intersection(*[dom[p] for p in ps]) if ps else set()
                new = new | {i}
                if new != dom[i]:
                    dom[i] = new
                    changed = True
        return dom
