"""Front end: obtain the type-checked program from clang's JSON AST dump.

Nothing here executes qlibc code.  Each unit is parsed by
`clang -fsyntax-only -Xclang -ast-dump=json` with the flags of one of the build
configurations; the loader restores clang's delta-encoded source locations, attaches
the outermost macro name to macro-expanded statements, resolves references
(functions, variables, parameters, fields) by declaration identity and prunes
everything that is not declared in the repository's own files.
"""
import json
import os
import re
import subprocess
import sys
import glob
from concurrent.futures import ProcessPoolExecutor

sys.setrecursionlimit(200000)

GUARD = 'QLIBC_VERIF'

CONFIGS = {
    'cmake-release': ['-std=gnu99', '-DNDEBUG'],
    'autotools': ['-D_GNU_SOURCE', '-D_LARGEFILE_SOURCE', '-D_FILE_OFFSET_BITS=64'],
    'autotools-debug': ['-D_GNU_SOURCE', '-D_LARGEFILE_SOURCE', '-D_FILE_OFFSET_BITS=64', '-DBUILD_DEBUG'],
}


class AnalysisBroken(Exception):
    """Raised when the analysis itself cannot be carried out (exit code 2)."""


def repo_root():
    return os.path.realpath(os.environ.get('QV_ROOT', '/repo'))


def discover_units(root):
    """Re-derive the list of compiled .c files from CMakeLists.txt (SRC_SUBPATHS*,
    GLOB_RECURSE semantics: the pattern's directory is searched recursively)."""
    cm = os.path.join(root, 'CMakeLists.txt')
    pats = []
    try:
        txt = open(cm).read()
        for m in re.finditer(r'SET\(\s*SRC_SUBPATHS(?:_EXT)?\s+([^)]*)\)', txt):
            pats += m.group(1).split()
    except OSError:
        pass
    if not pats:
        pats = ['containers/*.c', 'utilities/*.c', 'ipc/*.c', 'internal/*.c', 'extensions/*.c']
    units = set()
    for p in pats:
        d, pat = os.path.split(p)
        base = os.path.join(root, 'src', d)
        for dirpath, _dirs, files in os.walk(base):
            for f in files:
                if glob.fnmatch.fnmatch(f, pat):
                    units.add(os.path.join(dirpath, f))
    return sorted(units)


# --------------------------------------------------------------------------------------
# location handling

_src_cache = {}


def src_bytes(path):
    b = _src_cache.get(path)
    if b is None:
        try:
            with open(path, 'rb') as f:
                b = f.read()
        except OSError:
            b = b''
        _src_cache[path] = b
    return b


class _LocState:
    __slots__ = ('file', 'line')

    def __init__(self):
        self.file = None
        self.line = None

    def bare(self, loc):
        f = loc.get('file')
        if f is not None:
            self.file = f
        ln = loc.get('line')
        if ln is not None:
            self.line = ln
        loc['_file'] = self.file
        loc['_line'] = self.line

    def resolve(self, loc):
        if not isinstance(loc, dict) or not loc:
            return
        if 'spellingLoc' in loc or 'expansionLoc' in loc:
            for k, v in loc.items():
                if k == 'spellingLoc' or k == 'expansionLoc':
                    self.bare(v)
        elif 'offset' in loc:
            self.bare(loc)


_SKIP_KEYS = ('type', 'referencedDecl', 'argType', 'decl', 'ownedTagDecl', 'foundReferencedDecl')


def _restore_locations(root):
    st = _LocState()

    def visit(n):
        if isinstance(n, dict):
            for k, v in n.items():
                if k == 'loc':
                    st.resolve(v)
                elif k == 'range':
                    st.resolve(v.get('begin'))
                    st.resolve(v.get('end'))
                elif k == 'inner':
                    for c in v:
                        visit(c)
                elif isinstance(v, (dict, list)) and k not in _SKIP_KEYS:
                    visit(v)
        elif isinstance(n, list):
            for c in n:
                visit(c)
    visit(root)


def _begin(n):
    r = n.get('range')
    if r:
        b = r.get('begin')
        if b:
            return b
    return n.get('loc') or {}


def _annotate(n, root):
    """Attach _file/_line (expansion position), _macro (outermost macro that starts the
    node), _spfile/_spline (spelling position) to every node below n."""
    if n.get('kind') == 'InitListExpr' and not n.get('inner') and n.get('array_filler'):
        # a partially initialised array: clang lists the filler first and then the explicit initialisers
        n['inner'] = [c for c in n['array_filler'][1:] if isinstance(c, dict)]
        n['_zero_filled'] = True
    b = _begin(n)
    if 'expansionLoc' in b:
        e = b['expansionLoc']
        s = b.get('spellingLoc') or {}
        n['_file'] = e.get('_file')
        n['_line'] = e.get('_line')
        n['_col'] = e.get('col')
        n['_spfile'] = s.get('_file')
        n['_spline'] = s.get('_line')
        f = e.get('_file')
        if f:
            src = src_bytes(f)
            off = e.get('offset', 0)
            n['_macro'] = src[off:off + e.get('tokLen', 0)].decode('latin1')
            n['_macro_arg'] = bool(e.get('isMacroArgExpansion'))
    elif b:
        n['_file'] = b.get('_file')
        n['_line'] = b.get('_line')
        n['_col'] = b.get('col')
    r = n.get('range')
    if r and r.get('end'):
        e = r['end']
        if 'expansionLoc' in e:
            e = e['expansionLoc']
        n['_endline'] = e.get('_line')
        n['_endoff'] = (e.get('offset') or 0) + (e.get('tokLen') or 0)
        bb = b.get('expansionLoc', b)
        n['_off'] = bb.get('offset')
    for c in n.get('inner') or ():
        if isinstance(c, dict) and c:
            _annotate(c, root)


def walk(n):
    """Pre-order walk over AST nodes."""
    stack = [n]
    while stack:
        x = stack.pop()
        yield x
        inner = x.get('inner')
        if inner:
            for c in reversed(inner):
                if isinstance(c, dict) and c:
                    stack.append(c)


def children(n):
    return [c for c in (n.get('inner') or ()) if isinstance(c, dict) and c]


_STRIP_KINDS = ('ParenExpr', 'ImplicitCastExpr', 'CStyleCastExpr', 'ConstantExpr')


def strip(e):
    """Skip parentheses and casts."""
    while e.get('kind') in _STRIP_KINDS and e.get('inner'):
        e = e['inner'][0]
    return e


def strip_parens(e):
    while e.get('kind') in ('ParenExpr', 'ImplicitCastExpr', 'ConstantExpr') and e.get('inner'):
        e = e['inner'][0]
    return e


def qtype(n):
    t = n.get('type') or {}
    return t.get('qualType', '')


def dtype(n):
    t = n.get('type') or {}
    return t.get('desugaredQualType', t.get('qualType', ''))


# --------------------------------------------------------------------------------------
# a parsed unit


class Unit:
    """One translation unit, pruned to the declarations written in the repository."""

    def __init__(self, path, config, root):
        self.path = path
        self.config = config
        self.root = root
        self.rel = os.path.relpath(path, root)
        self.functions = {}      # name -> FunctionDecl (with body, defined in this repo)
        self.fn_decls = {}       # name -> any FunctionDecl (prototype) from repo files
        self.records = {}        # record name -> RecordDecl
        self.fields = {}         # field decl id -> (record name, field name, qualType)
        self.record_fields = {}  # record name -> [(field name, qualType, desugared)]
        self.typedefs = {}       # typedef name -> underlying qualType
        self.globals = {}        # name -> VarDecl (file scope, repo files)
        self.decl_kind = {}      # decl id -> ('param', idx, name)|('local', name)|('global', name)
        self.enums = {}          # enumerator name -> value expr
        self.all_typedefs = {}   # includes system typedefs (name -> qualType)

    # ---- type helpers
    def resolve_typedef(self, t):
        """Resolve a (possibly qualified, possibly pointer) type string to its base record
        name ('qvector_s') and pointer depth; returns (recordname or None, depth)."""
        t = t.strip()
        depth = 0
        while t.endswith('*') or t.endswith('const') or t.endswith('restrict'):
            if t.endswith('*'):
                depth += 1
                t = t[:-1].strip()
            elif t.endswith('const'):
                t = t[:-5].strip()
            else:
                t = t[:-8].strip()
        if t.startswith('const '):
            t = t[6:].strip()
        seen = 0
        while t in self.all_typedefs and seen < 10:
            u = self.all_typedefs[t].strip()
            seen += 1
            while u.endswith('*'):
                depth += 1
                u = u[:-1].strip()
            if u.startswith('const '):
                u = u[6:].strip()
            t = u
        if t.startswith('struct '):
            return t[7:].strip(), depth
        if t.startswith('union '):
            return t[6:].strip(), depth
        return None, depth


def _in_root(f, root):
    return bool(f) and (f.startswith(root + os.sep))


def _index_record(u, d, prefix, anon_counter):
    name = d.get('name')
    if not name:
        anon_counter[0] += 1
        name = '%s::<anon%d>' % (prefix or '', anon_counter[0])
    d['_recname'] = name
    if not d.get('completeDefinition'):
        return name
    u.records[name] = d
    flds = []
    last_anon = None
    for c in children(d):
        k = c.get('kind')
        if k == 'RecordDecl':
            last_anon = _index_record(u, c, name, anon_counter)
        elif k == 'FieldDecl':
            qt = qtype(c)
            u.fields[c['id']] = (name, c.get('name'), qt)
            ent = {'name': c.get('name'), 'type': qt, 'dtype': dtype(c), 'line': c.get('_line')}
            # a field whose type is the anonymous record declared just before it
            if last_anon and ('(unnamed' in qt or '(anonymous' in qt):
                ent['record'] = last_anon
            flds.append(ent)
            last_anon = None if not ('(unnamed' in qt or '(anonymous' in qt) else last_anon
    u.record_fields[name] = flds
    return name


def _resolve_refs(fn, u):
    """Attach `_ref` to DeclRefExprs and `_field` to MemberExprs, and `_label` ids."""
    params = {}
    idx = 0
    for c in children(fn):
        if c.get('kind') == 'ParmVarDecl':
            params[c['id']] = (idx, c.get('name'))
            u.decl_kind[c['id']] = ('param', idx, c.get('name'))
            idx += 1
    for n in walk(fn):
        k = n.get('kind')
        if k == 'VarDecl' and n['id'] not in u.decl_kind:
            u.decl_kind[n['id']] = ('local', n.get('name'))
        elif k == 'DeclRefExpr':
            rd = n.get('referencedDecl') or {}
            rk = rd.get('kind')
            if rk == 'FunctionDecl':
                n['_ref'] = ('fn', rd.get('name'))
            elif rk == 'ParmVarDecl':
                p = params.get(rd.get('id'))
                n['_ref'] = ('param', rd.get('id'), rd.get('name'), p[0] if p else -1)
            elif rk == 'VarDecl':
                dk = u.decl_kind.get(rd.get('id'))
                if dk and dk[0] == 'global':
                    n['_ref'] = ('global', rd.get('id'), rd.get('name'))
                else:
                    n['_ref'] = ('local', rd.get('id'), rd.get('name'))
            elif rk == 'EnumConstantDecl':
                n['_ref'] = ('enum', rd.get('name'))
            else:
                n['_ref'] = ('other', rd.get('name'))
        elif k == 'MemberExpr':
            fo = u.fields.get(n.get('referencedMemberDecl'))
            if fo:
                n['_field'] = fo


def load_unit(args):
    path, config, root = args
    flags = CONFIGS[config]
    cmd = (['clang'] + flags + ['-D' + GUARD, '-I' + os.path.join(root, 'src/internal'),
                                '-I' + os.path.join(root, 'include/qlibc'),
                                '-fsyntax-only', '-w', '-Xclang', '-ast-dump=json', path])
    r = subprocess.run(cmd, capture_output=True, cwd=root)
    if r.returncode != 0:
        return ('error', path, r.stderr.decode('utf8', 'replace')[-2000:])
    tree = json.loads(r.stdout)
    del r
    _restore_locations(tree)
    u = Unit(path, config, root)
    anon = [0]
    keep = []
    for d in tree.get('inner') or ():
        k = d.get('kind')
        b = _begin(d)
        f = (b.get('expansionLoc') or b).get('_file')
        # make relative file names absolute (clang prints them as given / found)
        if k == 'TypedefDecl':
            u.all_typedefs[d.get('name')] = qtype(d)
        if f and not os.path.isabs(f):
            f = os.path.normpath(os.path.join(root, f))
        if not _in_root(f, root):
            continue
        _annotate(d, root)
        keep.append(d)
    for d in keep:
        k = d.get('kind')
        if k == 'RecordDecl':
            _index_record(u, d, None, anon)
        elif k == 'TypedefDecl':
            u.typedefs[d.get('name')] = qtype(d)
        elif k == 'VarDecl':
            u.globals[d.get('name')] = d
            u.decl_kind[d['id']] = ('global', d.get('name'))
        elif k == 'EnumDecl':
            for c in children(d):
                if c.get('kind') == 'EnumConstantDecl':
                    u.enums[c.get('name')] = c
    for d in keep:
        if d.get('kind') == 'FunctionDecl':
            u.fn_decls.setdefault(d.get('name'), d)
            if any(c.get('kind') == 'CompoundStmt' for c in children(d)):
                _resolve_refs(d, u)
                u.functions[d.get('name')] = d
    for g in u.globals.values():
        for n in walk(g):
            if n.get('kind') == 'DeclRefExpr':
                rd = n.get('referencedDecl') or {}
                if rd.get('kind') == 'FunctionDecl':
                    n['_ref'] = ('fn', rd.get('name'))
    return ('ok', u)


# --------------------------------------------------------------------------------------
# the whole program


class Func:
    __slots__ = ('key', 'name', 'unit', 'decl', 'static', 'params', 'body', 'file', 'line',
                 '_cfg', 'rettype')

    def __init__(self, key, name, unit, decl):
        self.key = key
        self.name = name
        self.unit = unit
        self.decl = decl
        self.static = decl.get('storageClass') == 'static'
        self.params = [c for c in children(decl) if c.get('kind') == 'ParmVarDecl']
        self.body = [c for c in children(decl) if c.get('kind') == 'CompoundStmt'][0]
        self.file = decl.get('_file')
        self.line = decl.get('_line')
        self._cfg = None
        self.rettype = qtype(decl).split('(')[0].strip()

    @property
    def cfg(self):
        if self._cfg is None:
            from .cfg import CFG
            self._cfg = CFG(self)
        return self._cfg

    @property
    def relfile(self):
        return os.path.relpath(self.file, self.unit.root) if self.file else self.unit.rel

    def param_index(self, name):
        for i, p in enumerate(self.params):
            if p.get('name') == name:
                return i
        return -1

    def __repr__(self):
        return '<Func %s>' % self.name


class Ext:
    """An unresolved (external) callee."""
    __slots__ = ('desc',)

    def __init__(self, desc):
        self.desc = desc

    def __repr__(self):
        return '<Ext %s>' % self.desc


class Program:
    def __init__(self, units, root, config):
        self.units = units
        self.root = root
        self.config = config
        self.funcs = {}
        self.by_unit = {}
        self.mtab = {}
        self.indirect_resolved = 0
        self.indirect_external = {}
        for u in units:
            self.by_unit[u.rel] = u
            for name, d in u.functions.items():
                static = d.get('storageClass') == 'static'
                key = (u.rel, name) if static else name
                self.funcs[key] = Func(key, name, u, d)
        self._build_method_table()

    def unit(self, rel):
        u = self.by_unit.get(rel)
        if u is None:
            raise AnalysisBroken('unit %s is not part of the build' % rel)
        return u

    def func(self, name, unit_rel=None):
        """Look a function up by name (static functions need the unit)."""
        if unit_rel is not None:
            f = self.funcs.get((unit_rel, name))
            if f is not None:
                return f
        return self.funcs.get(name)

    def need_func(self, name, unit_rel=None):
        f = self.func(name, unit_rel)
        if f is None:
            raise AnalysisBroken('anchor function %s (%s) not found' % (name, unit_rel))
        return f

    def funcs_in(self, unit_rel):
        return [f for f in self.funcs.values() if f.unit.rel == unit_rel]

    def _build_method_table(self):
        mt = {}
        for f in self.funcs.values():
            for n in walk(f.body):
                if n.get('kind') == 'BinaryOperator' and n.get('opcode') == '=':
                    ch = children(n)
                    l, r = strip(ch[0]), strip(ch[1])
                    if l.get('kind') == 'MemberExpr' and l.get('_field'):
                        if r.get('kind') == 'UnaryOperator' and r.get('opcode') == '&':
                            r = strip(children(r)[0])
                        if r.get('kind') == 'DeclRefExpr' and (r.get('_ref') or ('',))[0] == 'fn':
                            fo = l['_field']
                            mt.setdefault((fo[0], fo[1]), set()).add((f.unit.rel, r['_ref'][1]))
        self.mtab = mt

    def resolve_name(self, unit, name):
        f = self.funcs.get((unit.rel, name))
        if f is not None:
            return f
        return self.funcs.get(name)

    def callees(self, unit, call):
        """Resolve a CallExpr to a list of Func (repo) / Ext (everything else)."""
        c = strip(children(call)[0])
        k = c.get('kind')
        if k == 'DeclRefExpr' and c.get('_ref') and c['_ref'][0] == 'fn':
            f = self.resolve_name(unit, c['_ref'][1])
            return [f] if f is not None else [Ext(c['_ref'][1])]
        if k == 'MemberExpr' and c.get('_field'):
            fo = c['_field']
            tg = self.mtab.get((fo[0], fo[1]))
            if tg:
                out = []
                for (urel, name) in sorted(tg):
                    f = self.funcs.get((urel, name)) or self.funcs.get(name)
                    out.append(f if f is not None else Ext(name))
                return out
            return [Ext('%s.%s' % (fo[0], fo[1]))]
        if k == 'DeclRefExpr':
            return [Ext('fnptr:%s' % (c.get('_ref') or ('', '', '?'))[2:3])]
        return [Ext('expr:%s' % k)]

    def callee_name(self, call):
        """Name of a directly called function, else None."""
        c = strip(children(call)[0])
        if c.get('kind') == 'DeclRefExpr' and c.get('_ref') and c['_ref'][0] == 'fn':
            return c['_ref'][1]
        return None


_prog_cache = {}


def load_program(config='cmake-release', root=None, units=None, jobs=16):
    root = root or repo_root()
    key = (config, root, tuple(units) if units else None)
    if key in _prog_cache:
        return _prog_cache[key]
    paths = units or discover_units(root)
    if not paths:
        raise AnalysisBroken('no source units found under %s' % root)
    with ProcessPoolExecutor(min(jobs, len(paths))) as ex:
        res = list(ex.map(load_unit, [(p, config, root) for p in paths]))
    us = []
    for r in res:
        if r[0] == 'error':
            raise AnalysisBroken('unit %s does not parse under %s:\n%s' % (r[1], config, r[2]))
        us.append(r[1])
    p = Program(us, root, config)
    _prog_cache[key] = p
    return p
