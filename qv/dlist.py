"""Doubly linked containers (qlisttbl.c, qlist.c): unlink protocol, matcher discipline, load pipeline order.

DL1  unlink protocol.  In the function that takes a node out of the chain (the one that decrements the container's
     count), on every feasible path to the decrement and for each side (first/prev, last/next):
       - the node's link on that side was tested;
       - where it is NULL (the node is at that end) the container's end pointer is re-assigned;
       - where it is non-NULL the neighbour's opposite link is re-assigned.
     Tests of the form `C->first == node` are understood as the same knowledge under the list invariant
     (node->prev == NULL  <=>  C->first == node).
L6   matcher discipline (qlisttbl).  Key equality is decided only through the option-selected slots (`namematch`,
     `namecmp`): the stored hash of an entry is compared only inside a function installed in the `namematch` slot, and
     the matcher that compares case-insensitively does not consult the hash (it is computed over the original spelling).
L8   load pipeline order (qlisttbl_load): text is trimmed and split while still encoded; nothing that was URL-decoded
     is handed to a routine that interprets blanks or separators.
"""
from .frontend import walk, children, strip, strip_parens, AnalysisBroken, qtype
from .expr import canon, access_path, is_null, int_value
from .own import propagate, node_events, cond_null_test
from .dataflow import node_defs

PAIRS = (('first', 'prev'), ('last', 'next'))
OPP = {'prev': 'next', 'next': 'prev'}


def _field(e):
    e = strip_parens(strip(e))
    if e.get('kind') == 'MemberExpr':
        return e.get('name'), children(e)[0]
    return None, None


def _link_addr_helpers(prog, unit):
    """static helpers that return the address of the slot pointing at a node's neighbour position:
        T **h(C *c, T *p) { return (p == NULL) ? &c->E : &p->K; }
    name -> (index of p, K (field of the non-NULL arm), E (end field of the NULL arm)).  `*h(c, node->prev) = v` then handles
    both the at-the-end and the inner case of one side, like a pointer-to-pointer slot variable."""
    out = {}
    for f in prog.funcs_in(unit):
        if f.body is None or not (f.rettype or '').replace(' ', '').endswith('**'):
            continue
        rets = [r for r in f.cfg.returns() if children(r.ast)]
        if len(rets) != 1:
            continue
        r = strip(children(rets[0].ast)[0])
        if r.get('kind') != 'ConditionalOperator':
            continue
        c, a, b = children(r)
        t = cond_null_test(c)
        if not t:
            continue
        pidx = next((i for i, p_ in enumerate(f.params) if p_.get('name') == t[0]), None)
        if pidx is None:
            continue
        arm_nn, arm_null = (b, a) if t[1] else (a, b)

        def addr_field(e):
            e = strip(e)
            if e.get('kind') == 'UnaryOperator' and e.get('opcode') == '&':
                return _field(children(e)[0])
            return (None, None)
        f1, b1 = addr_field(arm_nn)
        f2, b2 = addr_field(arm_null)
        cidx = next((i for i, p_ in enumerate(f.params) if b2 is not None and p_.get('name') == access_path(b2)), None)
        if f1 in OPP and access_path(b1) == t[0] and f2 in ('first', 'last') and cidx is not None:
            out[f.name] = (pidx, f1, f2, cidx)
    return out


def _slot_call(prog, helpers, lhs, link_of):
    """lhs = *h(..., x, ...) with h a link-address helper and x a prev/next position: the end field E of the side handled"""
    l = strip_parens(lhs)
    if l.get('kind') != 'UnaryOperator' or l.get('opcode') != '*':
        return None
    c = strip(children(l)[0])
    if c.get('kind') != 'CallExpr':
        return None
    h = helpers.get(prog.callee_name(c))
    if not h:
        return None
    args = children(c)[1:]
    if h[0] >= len(args):
        return None
    k = link_of(access_path(args[h[0]]))
    if k and h[1] == OPP[k] and (h[2], k) in PAIRS:
        return h[2]
    return None


def rule_unlink(prog, rep, unit, rid='DL1'):
    rep.rule(rid, 'unlink protocol of the doubly linked chain: on every path through the unlinking code each side is tested, an end '
                  'pointer is re-assigned where the node is at that end and the neighbour is re-linked where it is not')
    prog.unit(unit)
    found = 0
    slot_helpers = _link_addr_helpers(prog, unit)
    rep.notes['link_address_helpers'] = sorted(slot_helpers)
    for f in sorted(prog.funcs_in(unit), key=lambda x: x.line or 0):
        if f.body is None:
            continue
        names = {x.get('id'): x.get('name') for x in walk(f.decl) if x.get('kind') in ('VarDecl', 'ParmVarDecl')}
        # locals that always hold node->prev / node->next
        defs = {}
        ppdefs = {}
        for n in f.cfg.nodes:
            for (vid, rhs, kind, _l) in node_defs(n):
                nm = names.get(vid)
                if nm is None:
                    continue
                if rhs is None:
                    if kind != 'uninit':
                        defs.setdefault(nm, set()).add('?')
                    continue
                fld, _b = _field(rhs)
                defs.setdefault(nm, set()).add(fld if fld in OPP else '?')
                ppdefs.setdefault(nm, []).append(rhs)
        linkvar = {nm: next(iter(s_)) for nm, s_ in defs.items() if len(s_) == 1 and next(iter(s_)) in OPP}

        def link_of(path):
            if not path:
                return None
            if path in linkvar:
                return linkvar[path]
            for k in OPP:
                if path.endswith('->' + k) or path.endswith('.' + k):
                    return k
            return None

        # pointer-to-pointer link slots:  T **slot = (K != NULL) ? &K->opp : &C->E;   *slot = v  handles both cases of side E
        ppvar = {}
        for nm, rs in ppdefs.items():
            if len(rs) != 1:
                continue
            r = strip(rs[0])
            if r.get('kind') != 'ConditionalOperator':
                continue
            c, a, b = children(r)
            t = cond_null_test(c)
            k = link_of(t[0]) if t else None
            if not k:
                continue
            arm_nn, arm_null = (b, a) if t[1] else (a, b)

            def addr_field(e):
                e = strip(e)
                if e.get('kind') == 'UnaryOperator' and e.get('opcode') == '&':
                    return _field(children(e)[0])
                return (None, None)
            f1, b1 = addr_field(arm_nn)
            f2, _b2 = addr_field(arm_null)
            if f1 == OPP[k] and link_of(access_path(b1)) == k and (f2, k) in PAIRS:
                ppvar[nm] = f2

        def is_linkish(e):
            e = strip(e)
            if e.get('kind') == 'DeclRefExpr':
                return (e.get('referencedDecl') or {}).get('name') in linkvar
            fld, _b = _field(e)
            return fld in OPP

        # does this function unlink?  an end field or a neighbour's link receives a value taken from a node's own links
        unlinking = False
        for n in f.cfg.nodes:
            for ev in node_events(n):
                if ev[0] != 'assign':
                    continue
                lhs, rhs = ev[1], ev[2]
                l = strip_parens(lhs)
                if l.get('kind') == 'UnaryOperator' and l.get('opcode') == '*' and canon(children(l)[0]) in ppvar and is_linkish(rhs):
                    unlinking = True
                if slot_helpers and _slot_call(prog, slot_helpers, lhs, link_of) and is_linkish(rhs):
                    unlinking = True
                fld, base = _field(lhs)
                if fld in ('first', 'last') and is_linkish(rhs):
                    unlinking = True
                if fld in OPP and base is not None and is_linkish(base) and is_linkish(rhs):
                    unlinking = True
        if not unlinking:
            continue
        found += 1
        dec_nodes = []
        for n in f.cfg.nodes:
            for ev in node_events(n):
                if ev[0] != 'update':
                    continue
                fld, base = _field(ev[1])
                if fld != 'num':
                    continue
                x = ev[2]
                if (x.get('kind') == 'UnaryOperator' and x.get('opcode') == '--') or \
                        (x.get('kind') == 'CompoundAssignOperator' and x.get('opcode') == '-=' and int_value(children(x)[1]) == 1):
                    dec_nodes.append(n)
        # check points: the count decrement when the function has one, otherwise (a helper that only unlinks) its returns
        check_nodes = dec_nodes or [r for r in f.cfg.returns()] or []
        fall = [p for (p, _l) in f.cfg.exit.preds] if not dec_nodes else []
        for p in fall:
            if p not in check_nodes:
                check_nodes.append(p)

        def end_test(c):
            c = strip_parens(c)
            if c.get('kind') != 'BinaryOperator' or c.get('opcode') not in ('==', '!='):
                return None
            a, b = children(c)
            for x, y in ((a, b), (b, a)):
                fld, _ = _field(x)
                if fld in ('first', 'last') and not is_null(y):
                    return fld, c.get('opcode') == '=='
            return None

        def consistent(st):
            for (E, K) in PAIRS:
                if ('null', K) in st and ('nn', K) in st:
                    return False
                if ('null', K) in st and ('notend', E) in st:
                    return False
                if ('nn', K) in st and ('isend', E) in st:
                    return False
                if ('isend', E) in st and ('notend', E) in st:
                    return False
            return True

        def branch(n, st, lab):
            if not isinstance(n.ast, dict):
                return st
            s = set(st)
            t = cond_null_test(n.ast)
            if t:
                k = link_of(t[0])
                if k:
                    s.add(('null' if (lab == 'T') == t[1] else 'nn', k))
            et = end_test(n.ast)
            if et:
                s.add(('isend' if (lab == 'T') == et[1] else 'notend', et[0]))
            return frozenset(s) if consistent(s) else None

        def transfer(n, st):
            if not isinstance(n.ast, dict) or n.kind == 'macro':
                return st
            s = set(st)
            for ev in node_events(n):
                if ev[0] != 'assign':
                    continue
                l = strip_parens(ev[1])
                if l.get('kind') == 'UnaryOperator' and l.get('opcode') == '*' and canon(children(l)[0]) in ppvar:
                    s.add(('both', ppvar[canon(children(l)[0])]))
                    continue
                e_ = _slot_call(prog, slot_helpers, ev[1], link_of) if slot_helpers else None
                if e_:
                    s.add(('both', e_))
                    continue
                fld, base = _field(ev[1])
                if fld in ('first', 'last'):
                    s.add(('store', fld))
                elif fld in OPP:
                    k = link_of(access_path(base))
                    if k and OPP[k] == fld:
                        s.add(('relink', k))
            return frozenset(s)

        states, truncated = propagate(f, frozenset(), transfer, branch)
        if truncated:
            raise AnalysisBroken('%s: state space truncated in the unlink analysis' % f.name)
        for dn in check_nodes:
            sts = states.get(dn.id, ())
            if not dec_nodes:
                # helper exits: the exit state is the state after the node
                sts = {transfer(dn, st) for st in sts}
                if isinstance(dn.ast, dict) and dn.ast.get('kind') == 'ReturnStmt' and children(dn.ast) and int_value(children(dn.ast)[0]) == 0:
                    continue        # `return false`: a refusal, nothing was unlinked
            rep.instance(rid)
            problems = []
            for st in sts:
                for (E, K) in PAIRS:
                    if ('both', E) in st:
                        continue
                    at_end = ('null', K) in st or ('isend', E) in st
                    inner = ('nn', K) in st or ('notend', E) in st
                    if at_end and ('store', E) not in st:
                        problems.append('on the path where the node is the %s entry (%s link NULL) the container\'s `%s` is not re-assigned' % (E, K, E))
                    elif inner and ('relink', K) not in st:
                        problems.append('on the path where the node has a %s neighbour that neighbour\'s `%s` link is not re-assigned' % (K, OPP[K]))
                    elif not at_end and not inner:
                        problems.append('the `%s` side is neither tested nor known on a path through the unlinking code' % E)
            problems = sorted(set(problems))
            rep.oblige(rid, not problems, {'function': f.name, 'line': dn.line, 'paths': len(sts)})
            for p_ in problems:
                rep.violation(rid, f, dn.line, 'unlink:%s' % (p_.split('`')[1] if '`' in p_ else 'side'), p_)
    if found == 0:
        raise AnalysisBroken('%s: no function that unlinks a node from the doubly linked chain was found' % unit)


def rule_matcher(prog, rep, unit='src/containers/qlisttbl.c', rid='L6'):
    rep.rule(rid, 'key equality goes through the option-selected matcher slots: the stored hash is compared only inside '
                  'namematch-slot functions, never by the case-insensitive matcher, and entry names are compared with the raw '
                  'libc comparators only inside those functions')
    prog.unit(unit)
    slot = set()     # functions installed in the namematch slot
    for f in prog.funcs_in(unit):
        if f.body is None:
            continue
        for x in walk(f.body):
            if x.get('kind') == 'BinaryOperator' and x.get('opcode') == '=':
                fld, _b = _field(children(x)[0])
                if fld == 'namematch':
                    r = strip(children(x)[1])
                    if r.get('kind') == 'DeclRefExpr':
                        nm = (r.get('referencedDecl') or {}).get('name')
                        if nm:
                            slot.add(nm)
    if len(slot) < 1:
        raise AnalysisBroken('no function is installed in the namematch slot')
    rep.notes['namematch_slot'] = sorted(slot)
    RAW = ('strcmp', 'strcasecmp', 'strncmp', 'strncasecmp', 'memcmp')
    for f in sorted(prog.funcs_in(unit), key=lambda x: x.line or 0):
        if f.body is None:
            continue
        calls = [x for x in walk(f.body) if x.get('kind') == 'CallExpr']
        callee = [prog.callee_name(x) for x in calls]
        insensitive = any(c in ('strcasecmp', 'strncasecmp') for c in callee)
        for x in walk(f.body):
            if x.get('kind') == 'BinaryOperator' and x.get('opcode') in ('==', '!='):
                sides = [_field(c)[0] for c in children(x)]
                if 'hash' in sides:
                    rep.instance(rid)
                    ok = f.name in slot and not insensitive
                    rep.oblige(rid, ok, {'function': f.name, 'line': x.get('_line'), 'compare': canon(x)[:60]})
                    if f.name not in slot:
                        rep.violation(rid, f, x.get('_line'), 'hashcmp:%s' % f.name,
                                      'the stored hash is compared outside the namematch slot (%s): the hash is of the key\'s original '
                                      'spelling, so on a case-insensitive table entries that differ only in case are skipped'
                                      % ', '.join(sorted(slot)))
                    elif insensitive:
                        rep.violation(rid, f, x.get('_line'), 'hashcmp-ci:%s' % f.name,
                                      'the case-insensitive matcher consults the stored hash, which is computed over the original spelling')
        for c in calls:
            nm = prog.callee_name(c)
            if nm in RAW:
                args = children(c)[1:]
                if any(_field(a)[0] == 'name' and 'obj' in (qtype(strip(_field(a)[1])) or '') for a in args):
                    rep.instance(rid)
                    ok = f.name in slot
                    rep.oblige(rid, ok, {'function': f.name, 'line': c.get('_line'), 'call': canon(c)[:60]})
                    if not ok:
                        rep.violation(rid, f, c.get('_line'), 'rawcmp:%s' % f.name,
                                      'an entry name is compared with %s() directly instead of through the option-selected '
                                      'namematch/namecmp slot: the case option is ignored here' % nm)


INTERPRETERS = ('qstrtrim', 'qstrtrim_head', 'qstrtrim_tail', '_q_makeword', 'qstrunchar', 'strtok', 'qstrtok')


def rule_decode_last(prog, rep, fname='qlisttbl_load', rid='L8'):
    rep.rule(rid, 'in the loader, text is trimmed and split while still encoded: nothing that was URL-decoded is handed to a '
                  'routine that interprets blanks or separators')
    f = prog.need_func(fname)
    bad = []

    def transfer(n, st):
        s = set(st)
        if not isinstance(n.ast, dict) or n.kind == 'macro':
            return st
        for ev in node_events(n):
            if ev[0] == 'call':
                nm = prog.callee_name(ev[1])
                args = children(ev[1])[1:]
                if nm == 'qurl_decode' and args:
                    p = access_path(args[0])
                    if p:
                        s.add(('dec', p))
                elif nm in INTERPRETERS and args:
                    p = access_path(args[0])
                    if p and ('dec', p) in s:
                        bad.append((ev[1].get('_line'), p, nm))
            elif ev[0] in ('assign', 'decl'):
                p = access_path(ev[1]) if ev[0] == 'assign' else ev[1].get('name')
                if p:
                    s.discard(('dec', p))
        return frozenset(s)
    propagate(f, frozenset(), transfer)
    decs = [x for x in walk(f.body) if x.get('kind') == 'CallExpr' and prog.callee_name(x) == 'qurl_decode']
    if not decs:
        return          # a loader without a decode step has nothing to order
    for d in decs:
        rep.instance(rid)
        p = access_path(children(d)[1]) if len(children(d)) > 1 else None
        hit = [b for b in bad if b[1] == p]
        rep.oblige(rid, not hit, {'decode': canon(d)[:60], 'line': d.get('_line')})
        for (line, p_, nm) in sorted(set(hit)):
            rep.violation(rid, f, line, 'interp-after-decode:%s' % nm,
                          '%s is URL-decoded (line %s) and then handed to %s(): blanks/separators that the writer escaped on purpose '
                          'are now interpreted' % (p_, d.get('_line'), nm))


def rule_load_appends(prog, rep, fname='qlisttbl_load', rid='L9'):
    """The loader appends at the bottom whatever the table's insert-at-top option says (save writes first -> last, so only
    appending reproduces the order): no read of the `inserttop` option field is reachable from the loader."""
    rep.rule(rid, 'the loader appends at the bottom regardless of the insert-at-top option: no read of `inserttop` is reachable '
                  'from it through the call graph')
    f = prog.need_func(fname)
    seen, work, chain = {f.key: None}, [f], {}
    hits = []
    while work:
        g = work.pop()
        if g.body is None:
            continue
        for x in walk(g.body):
            if x.get('kind') == 'MemberExpr' and x.get('name') == 'inserttop':
                hits.append((g, x.get('_line')))
        for call in walk(g.body):
            if call.get('kind') != 'CallExpr':
                continue
            for c in prog.callees(g.unit, call):
                if getattr(c, 'body', None) is None:
                    continue
                if c.key not in seen:
                    seen[c.key] = g
                    work.append(c)
    # only functions on a call path from the loader to the function that links a new entry (increments the count) matter:
    # a lookup helper that prepares a cursor for the caller reads the option too, but does not decide where the loader links
    def increments(g):
        for n in g.cfg.nodes:
            for ev in node_events(n):
                if ev[0] == 'update' and _field(ev[1])[0] == 'num':
                    x = ev[2]
                    if (x.get('kind') == 'UnaryOperator' and x.get('opcode') == '++') or \
                            (x.get('kind') == 'CompoundAssignOperator' and x.get('opcode') == '+='):
                        return True
        return False
    callmap = {}
    for key in seen:
        g = prog.funcs.get(key)
        if g is None or g.body is None:
            continue
        outs = set()
        for call in walk(g.body):
            if call.get('kind') == 'CallExpr':
                for c in prog.callees(g.unit, call):
                    if getattr(c, 'body', None) is not None:
                        outs.add(c.key)
        callmap[key] = outs
    linkers = {k for k in callmap if increments(prog.funcs[k])}
    if not linkers:
        raise AnalysisBroken('%s: no function that links a new entry is reachable from the loader' % fname)
    reach_link = set(linkers)
    changed = True
    while changed:
        changed = False
        for k, outs in callmap.items():
            if k not in reach_link and outs & reach_link:
                reach_link.add(k)
                changed = True
    hits = [(g, l) for (g, l) in hits if g.key in reach_link]
    rep.instance(rid, len(reach_link))
    rep.oblige(rid, not hits, {'loader': fname, 'functions_on_load_to_link_paths': sorted(str(k) for k in reach_link)})
    for (g, line) in hits:
        path, cur = [], g
        while cur is not None:
            path.append(cur.name)
            cur = seen.get(cur.key)
        rep.violation(rid, g, line, 'inserttop-read:%s' % g.name,
                      'the insert-at-top option is consulted on the load path (%s): save writes the entries first -> last, so a table '
                      'created with INSERTTOP comes back in reverse order' % ' <- '.join(path))


def rule_link(prog, rep, unit, rid='DL2'):
    """Link-in protocol of the doubly linked chain (the mirror of DL1).  In the function that links a new node O and counts it,
    on every feasible path to the count increment and for each side of O:
      - where O's link on that side is NULL (known by assignment or test) the container's end pointer on that side is O;
      - otherwise the neighbour's opposite link was set to O (`S->prev = O` for S = O->next, `P->next = O` for P = O->prev).
    Values are tracked as (expression, version): a later store to `tgt->prev` does not change which node an earlier
    `obj->prev = tgt->prev` referred to.  List invariant used for pruning: first == NULL  <=>  last == NULL."""
    rep.rule(rid, 'link-in protocol of the doubly linked chain: at the count increment each side of the new node is closed - end '
                  'pointer set to it where it has no neighbour, the neighbour\'s opposite link set to it where it has one')
    prog.unit(unit)
    found = 0
    slot_helpers = _link_addr_helpers(prog, unit)

    def _suffix_link(path):
        for k in OPP:
            if path and (path.endswith('->' + k) or path.endswith('.' + k)):
                return k
        return None
    for f in sorted(prog.funcs_in(unit), key=lambda x: x.line or 0):
        if f.body is None:
            continue
        inc_nodes = [n for n in f.cfg.nodes for ev in node_events(n) if ev[0] == 'update' and _field(ev[1])[0] == 'num'
                     and ev[2].get('kind') == 'UnaryOperator' and ev[2].get('opcode') == '++']
        if not inc_nodes:
            continue
        # O: the node variable stored into an end pointer
        onames = set()
        for x in walk(f.body):
            if x.get('kind') == 'BinaryOperator' and x.get('opcode') == '=':
                fld, _b = _field(children(x)[0])
                r = strip(children(x)[1])
                if fld in ('first', 'last') and r.get('kind') == 'DeclRefExpr':
                    onames.add((r.get('referencedDecl') or {}).get('name'))
                if slot_helpers and r.get('kind') == 'DeclRefExpr' and _slot_call(prog, slot_helpers, children(x)[0], _suffix_link):
                    onames.add((r.get('referencedDecl') or {}).get('name'))
        if len(onames) != 1:
            continue
        O = next(iter(onames))
        found += 1
        names = {x.get('id'): x.get('name') for x in walk(f.decl) if x.get('kind') in ('VarDecl', 'ParmVarDecl')}
        # locals that alias an expression (single definition)
        ldefs = {}
        for n in f.cfg.nodes:
            for (vid, rhs, kind, _l) in node_defs(n):
                nm = names.get(vid)
                if nm and nm != O:
                    ldefs.setdefault(nm, []).append(rhs)
        alias = {nm: canon(strip(rs[0])) for nm, rs in ldefs.items() if len(rs) == 1 and rs[0] is not None
                 and strip(rs[0]).get('kind') == 'MemberExpr'}
        cont = None
        for x in walk(f.body):
            fld, b = _field(x) if x.get('kind') == 'MemberExpr' else (None, None)
            if fld in ('first', 'last') and b is not None:
                cont = canon(b)
        SIDE_END = {'next': 'last', 'prev': 'first'}

        def ver(st, e):
            for x in st:
                if x[0] == 'ver' and x[1] == e:
                    return x[2]
            return 0

        def resolve(st, e):
            """canonical (expr, version) a pointer expression denotes now: O->side resolves to its recorded value"""
            e = alias.get(e, e)
            for side in ('next', 'prev'):
                if e == '%s->%s' % (O, side):
                    for x in st:
                        if x[0] == 'val' and x[1] == side:
                            return x[2], x[3]
            return e, ver(st, e)

        def bump(s, e):
            v = ver(s, e)
            s2 = {x for x in s if not (x[0] == 'ver' and x[1] == e)}
            s2.add(('ver', e, v + 1))
            return s2

        def learn_null(s, e, v, isnull):
            tag = 'null' if isnull else 'nn'
            other = 'nn' if isnull else 'null'
            if (other, e, v) in s:
                return None
            s.add((tag, e, v))
            # list invariant: first == NULL <=> last == NULL (as long as neither was re-assigned since)
            if cont:
                pair = {cont + '->first': cont + '->last', cont + '->last': cont + '->first'}
                if e in pair and v == ver(s, e):
                    o = pair[e]
                    ov = ver(s, o)
                    if (other, o, ov) in s:
                        return None
                    s.add((tag, o, ov))
            return s

        def branch(n, st, lab):
            if not isinstance(n.ast, dict):
                return st
            t = cond_null_test(n.ast)
            if not t:
                return st
            e, v = resolve(st, t[0])
            if e == 'NULL':
                return st if ((lab == 'T') == t[1]) else None
            s = learn_null(set(st), e, v, (lab == 'T') == t[1])
            return frozenset(s) if s is not None else None

        def transfer(n, st):
            if not isinstance(n.ast, dict) or n.kind == 'macro':
                return st
            s = set(st)
            for ev in node_events(n):
                if ev[0] != 'assign':
                    continue
                lhs, rhs = ev[1], ev[2]
                fld, base = _field(lhs)
                r = strip(rhs)
                rname = (r.get('referencedDecl') or {}).get('name') if r.get('kind') == 'DeclRefExpr' else None
                E_ = _slot_call(prog, slot_helpers, lhs, _suffix_link) if slot_helpers else None
                if E_:
                    # *h(c, O->side) = v : the end pointer where O->side is NULL, the neighbour's opposite link where it is not
                    call_ = strip(children(strip_parens(lhs))[0])
                    h_ = slot_helpers[prog.callee_name(call_)]
                    arg_ = canon(strip(children(call_)[1:][h_[0]]))
                    ne, nv = resolve(s, arg_)
                    e = '%s->%s' % (cont or canon(strip(children(call_)[1:][h_[3]])), E_)
                    s = bump(s, e)
                    s = {x for x in s if not (x[0] == 'end' and x[1] == E_)}
                    if ne != 'NULL':
                        s = bump(s, '%s->%s' % (ne, h_[1]))
                    if rname == O:
                        s.add(('end', E_))
                        if ne != 'NULL':
                            s.add(('lnk', h_[1], ne, nv))
                    continue
                if fld in ('first', 'last') and base is not None:
                    e = canon(strip_parens(lhs))
                    s = bump(s, e)
                    s = {x for x in s if not (x[0] == 'end' and x[1] == fld)}
                    if rname == O:
                        s.add(('end', fld))
                        s.add(('nn', e, ver(s, e)))
                elif fld in OPP and base is not None:
                    bpath = canon(base)
                    if bpath == O:
                        # O->side = value
                        s = {x for x in s if not (x[0] == 'val' and x[1] == fld)}
                        if is_null(rhs):
                            s.add(('val', fld, 'NULL', 0))
                        else:
                            e, v = resolve(s, canon(r))
                            s.add(('val', fld, e, v))
                    else:
                        be, bv = resolve(s, bpath)
                        full = canon(strip_parens(lhs))
                        s = bump(s, alias.get(full, full))
                        if rname == O:
                            s.add(('lnk', fld, be, bv))
            return frozenset(s)

        init = set()
        states, truncated = propagate(f, frozenset(init), transfer, branch)
        if truncated:
            raise AnalysisBroken('%s: state space truncated in the link-in analysis' % f.name)
        for dn in inc_nodes:
            rep.instance(rid)
            problems = []
            for st in states.get(dn.id, ()):
                for side in ('next', 'prev'):
                    E, opp = SIDE_END[side], OPP[side]
                    val = [x for x in st if x[0] == 'val' and x[1] == side]
                    if val:
                        e, v = val[0][2], val[0][3]
                    else:
                        e, v = '%s->%s' % (O, side), 0       # set by the caller: the expression stands for itself
                    isnull = e == 'NULL' or ('null', e, v) in st
                    if isnull:
                        if ('end', E) not in st:
                            problems.append('on a path on which %s->%s is NULL the container\'s `%s` is not set to %s' % (O, side, E, O))
                    else:
                        if ('lnk', opp, e, v) not in st:
                            problems.append('on a path on which %s->%s is %s that node\'s `%s` link is not set to %s' % (O, side, e, opp, O))
            problems = sorted(set(problems))
            rep.oblige(rid, not problems, {'function': f.name, 'line': dn.line, 'new_node': O, 'paths': len(states.get(dn.id, ()))})
            for p_ in problems:
                rep.violation(rid, f, dn.line, 'link:%s' % p_.split('`')[1], p_)
    if found == 0:
        raise AnalysisBroken('%s: no function that links a new node and counts it was found' % unit)


# --------------------------------------------------------------------------------------
# DL3: the link position of a new node is sampled after the last operation that may free nodes

def rule_fresh_position(prog, rep, units, rid='DL3'):
    """A pointer read from the chain (`C->first`, `C->last`, `X->next`, `X->prev`) and parked in a link field of a node that
    is not linked yet (`obj->prev = tbl->last`) designates a node of the container.  A call that may free arbitrary nodes of
    the same container (a remove-by-key, a clear ...) between the sample and the call that links the node in makes the
    parked pointer dangle: the linker then writes through it.  May-analysis over all paths; a re-sample refreshes."""
    rep.rule(rid, 'a chain pointer parked in the link fields of a not-yet-linked node is not separated from the link-in call by a call '
                  'that may free nodes of the container (remove-by-key, clear): the position is sampled after the removal')
    for unit in units:
        prog.unit(unit)
        funcs = [f for f in prog.funcs_in(unit) if f.body is not None]
        # node record types: records with self-typed prev and next links that are dereferenced in this unit
        nodetypes = set()
        for f in funcs:
            for x in walk(f.body):
                if x.get('kind') == 'MemberExpr' and x.get('name') in ('prev', 'next') and x.get('_field'):
                    nodetypes.add(x['_field'][0])
        if not nodetypes:
            continue
        # functions that may free a node (directly or through calls inside the unit / the method table)
        freers = set()
        for f in funcs:
            for x in walk(f.body):
                if x.get('kind') == 'CallExpr' and prog.callee_name(x) == 'free' and len(children(x)) > 1:
                    a = strip(children(x)[1])
                    t = (qtype(a) or '')
                    rt = f.unit.resolve_typedef(t.replace('*', '').replace('const', '').strip())[0] if t.rstrip().endswith('*') else None
                    if rt in nodetypes:
                        freers.add(f.name)
        changed = True
        while changed:
            changed = False
            for f in funcs:
                if f.name in freers:
                    continue
                for x in walk(f.body):
                    if x.get('kind') == 'CallExpr' and any(getattr(c, 'name', None) in freers for c in prog.callees(f.unit, x)):
                        freers.add(f.name)
                        changed = True
                        break
        rep.notes.setdefault('node_freeing_functions', {})[unit] = sorted(freers)

        def chain_read(e):
            e = strip(e)
            if e.get('kind') == 'ConditionalOperator':
                return any(chain_read(c) for c in children(e)[1:])
            return e.get('kind') == 'MemberExpr' and e.get('name') in ('first', 'last', 'next', 'prev', 'head', 'tail')

        for f in sorted(funcs, key=lambda x: x.line or 0):
            cfg = f.cfg
            # events per node
            evs = {}
            interesting = False
            for n in cfg.nodes:
                if n.id not in cfg.reachable or not isinstance(n.ast, dict) or n.kind == 'macro':
                    continue
                out = []
                for ev in node_events(n):
                    if ev[0] == 'assign':
                        fld, b = _field(ev[1])
                        if fld in ('prev', 'next') and b is not None and strip(b).get('kind') == 'DeclRefExpr':
                            out.append(('park', canon(b), chain_read(ev[2])))
                    elif ev[0] == 'call':
                        cs = prog.callees(f.unit, ev[1])
                        names = {getattr(c, 'name', None) for c in cs}
                        args = [canon(a) for a in children(ev[1])[1:]]
                        if names & freers and 'free' not in names:
                            out.append(('mayfree', ev[1], args))
                        out.append(('pass', ev[1], args))
                if any(e[0] == 'mayfree' for e in out):
                    interesting = True
                evs[n.id] = out
            if not interesting:
                continue
            parked_any = any(e[0] == 'park' and e[2] for es in evs.values() for e in es)
            if not parked_any:
                continue
            rep.instance(rid)
            IN = {cfg.entry.id: frozenset()}
            work = [cfg.entry]
            bad = None
            while work:
                n = work.pop()
                st = set(IN[n.id])            # ('fresh', O) / ('stale', O)
                for e in evs.get(n.id, ()):
                    if e[0] == 'park':
                        st.discard(('stale', e[1]))
                        st.discard(('fresh', e[1]))
                        if e[2]:
                            st.add(('fresh', e[1]))
                    elif e[0] == 'pass':
                        for (k, o) in list(st):
                            if k == 'stale' and o in e[2] and bad is None:
                                bad = (e[1], o)
                    elif e[0] == 'mayfree':
                        for (k, o) in list(st):
                            if k == 'fresh' and o not in e[2]:
                                st.discard((k, o))
                                st.add(('stale', o))
                    if e[0] == 'mayfree':
                        continue
                st = frozenset(st)
                for (s, _l) in n.succs:
                    old = IN.get(s.id)
                    if old is None:
                        IN[s.id] = st
                        work.append(s)
                    elif not st <= old:
                        IN[s.id] = old | st
                        work.append(s)
            rep.oblige(rid, bad is None, {'function': f.name})
            if bad is not None:
                rep.violation(rid, f, bad[0].get('_line'), 'stale:%s' % bad[1],
                              '%s: the link fields of %s hold a chain pointer sampled before a call that may free nodes of the container; '
                              '%s then links through it (write into a freed neighbour)' % (f.name, bad[1], canon(bad[0])[:50]))
