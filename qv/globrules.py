"""GS1: container code keeps no mutable state outside the container object.

Every container operation's result is a function of the handle it is given (and errno, which is thread-local).  A
file-scope or function-static variable that the unit writes is state shared by all tables and all threads: one table's
history then leaks into another table's results, and the per-container lock does not protect it.  The rule is structural:
list every file-scope variable and every `static` local of the unit, and every write to one (assignment, compound
assignment, ++/--, element/member store through it, its address escaping to a call).  A variable that is never written
is a constant table whatever its qualifiers and is accepted; so is one that is only updated in statement position and
never read (the rotation counters of qtreetbl.c): no result can depend on it."""
from .frontend import children, walk, strip, qtype
from .expr import access_path, canon


def _root_name(e):
    e = strip(e)
    while e.get('kind') in ('MemberExpr', 'ArraySubscriptExpr') or (e.get('kind') == 'UnaryOperator' and e.get('opcode') == '*'):
        e = strip(children(e)[0])
    if e.get('kind') == 'DeclRefExpr':
        return e
    return None


def rule_g1(prog, rep, units, rid='GS1'):
    rep.rule(rid, 'no operation of the unit writes a file-scope or function-static variable that the unit also reads: all mutable state lives in the container '
                  'object the caller passes in (per-table results are independent of other tables and threads; errno is thread-local)')
    for rel in units:
        u = prog.unit(rel)
        rep.instance(rid)
        statics = {}        # decl id -> (name, line, where)
        for nm, d in (u.globals or {}).items():
            if d.get('_file_rel') and d['_file_rel'] != rel:
                continue
            statics[d.get('id')] = (nm, d.get('_line'), 'file scope')
        funcs = [f for f in prog.funcs_in(rel) if f.body is not None]
        for f in funcs:
            for x in walk(f.body):
                if x.get('kind') == 'VarDecl' and x.get('storageClass') == 'static':
                    statics[x.get('id')] = (x.get('name'), x.get('_line'), 'static local of %s' % f.name)
        writes = []
        for f in funcs:
            for x in walk(f.body):
                k = x.get('kind')
                tgt = None
                if k == 'BinaryOperator' and x.get('opcode') == '=':
                    tgt = children(x)[0]
                elif k == 'CompoundAssignOperator':
                    tgt = children(x)[0]
                elif k == 'UnaryOperator' and x.get('opcode') in ('++', '--'):
                    tgt = children(x)[0]
                elif k == 'UnaryOperator' and x.get('opcode') == '&':
                    tgt = children(x)[0]
                elif k == 'CallExpr':
                    # an array handed to a callee that may fill it (non-const pointee)
                    for a in children(x)[1:]:
                        r = _root_name(a)
                        if r is not None and strip(a) is r and '[' in (qtype(r) or '') and 'const' not in (qtype(r) or ''):
                            did = (r.get('referencedDecl') or {}).get('id')
                            if did in statics:
                                writes.append((f, x, did, 'handed to %s() as a writable buffer' % (prog.callee_name(x) or '?')))
                    continue
                if tgt is None:
                    continue
                r = _root_name(tgt)
                if r is None:
                    continue
                # a store through a pointer variable writes the pointee, not the variable - unless the variable is an array
                st = strip(tgt)
                direct = st is r
                via_array = '[' in (qtype(r) or '')
                via_member = st.get('kind') == 'MemberExpr' and not st.get('isArrow') and _only_dots(st)
                if not (direct or via_array or via_member):
                    continue
                did = (r.get('referencedDecl') or {}).get('id')
                if did in statics:
                    how = 'its address is taken' if (k == 'UnaryOperator' and x.get('opcode') == '&') else 'written'
                    writes.append((f, x, did, how))
        # a variable that is only ever updated in statement position (`cnt++;`, `cnt += n;`, `last = x;`) and never read is
        # write-only instrumentation: no result can depend on it
        pure = set()
        for f in funcs:
            for c in walk(f.body):
                if c.get('kind') not in ('CompoundStmt', 'IfStmt', 'ForStmt', 'WhileStmt', 'DoStmt', 'LabelStmt', 'CaseStmt', 'DefaultStmt'):
                    continue
                for st in children(c):
                    st = strip(st)
                    k = st.get('kind')
                    if (k == 'UnaryOperator' and st.get('opcode') in ('++', '--')) or k == 'CompoundAssignOperator' or \
                            (k == 'BinaryOperator' and st.get('opcode') == '='):
                        t = strip(children(st)[0])
                        if t.get('kind') == 'DeclRefExpr':
                            pure.add(id(t))
        read = set()
        for f in funcs:
            for x in walk(f.body):
                if x.get('kind') == 'DeclRefExpr' and id(x) not in pure:
                    did = (x.get('referencedDecl') or {}).get('id')
                    if did in statics:
                        read.add(did)
        bad = {}
        write_only = set()
        for (f, x, did, how) in writes:
            if did in read:
                bad.setdefault(did, (f, x, how))
            else:
                write_only.add(statics[did][0])
        rep.oblige(rid, not bad, {'unit': rel, 'static_variables': len(statics), 'written_and_read': len(bad),
                                  'write_only_counters': sorted(write_only), 'functions': len(funcs)})
        for did, (f, x, how) in sorted(bad.items(), key=lambda kv: kv[1][1].get('_line') or 0):
            nm, line, where = statics[did]
            rep.violation(rid, f, x.get('_line'), 'static:%s' % nm,
                          '%s (%s, declared at line %s) is %s in %s: state shared by every table and every thread, outside the '
                          'container object and its lock - one table\'s operation changes what another table\'s operation reports'
                          % (nm, where, line, how, f.name))


def _only_dots(e):
    e = strip(e)
    while e.get('kind') == 'MemberExpr':
        if e.get('isArrow'):
            return False
        e = strip(children(e)[0])
    return True
