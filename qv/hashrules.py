"""Engine H: exact-bytes and algorithm-parameter rules for the hash functions (C18; H2 shared with C11)."""
from .frontend import walk, children, strip, strip_parens, qtype, AnalysisBroken
from .expr import int_value as int_value_
from .expr import canon, access_path, int_value, root_var
from .dataflow import ReachingDefs, origins

HASH_UNIT = 'src/utilities/qhash.c'


def _data_params(f):
    """(pointer param, count param) pairs of a hash function: `const void *data, size_t nbytes`."""
    ptrs = [p for p in f.params if qtype(p).rstrip().endswith('*')]
    cnts = [p for p in f.params if 'size_t' in qtype(p) or qtype(p) in ('int', 'unsigned int', 'long')]
    return ptrs, cnts


def _derives_from(rd, node_id, e, param_names):
    o = origins(rd, node_id, e)
    return any(t == 'param:%s' % p for t in o for p in param_names)


def rule_h2(prog, rep, rid='H2'):
    """In a counted scan (a cursor into the data advanced in step with a decrement of the remaining
    count) every dereference of the cursor is dominated, inside the loop, by the count test."""
    rep.rule(rid, 'counted scans test the remaining count before dereferencing the cursor (no read past the buffer)')
    u = prog.unit(HASH_UNIT)
    for f in sorted(prog.funcs_in(HASH_UNIT), key=lambda x: x.line or 0):
        ptrs, cnts = _data_params(f)
        if not ptrs or not cnts:
            continue
        cfg = f.cfg
        rd = ReachingDefs(f)
        dom = None
        pnames = [p.get('name') for p in ptrs]
        cnames = [p.get('name') for p in cnts]
        for (head, loop) in cfg.loops:
            # loop body nodes: reachable from head and reaching head
            body = _loop_nodes(cfg, head)
            dec_vars = set()
            adv_vars = set()
            for nid in body:
                n = cfg.nodes[nid]
                if not isinstance(n.ast, dict):
                    continue
                for x in walk(n.ast):
                    k = x.get('kind')
                    if (k == 'UnaryOperator' and x.get('opcode') in ('--', '++')) or k == 'CompoundAssignOperator':
                        t = strip(children(x)[0])
                        p = access_path(t)
                        if not p:
                            continue
                        op = x.get('opcode')
                        if qtype(t).rstrip().endswith('*') and op in ('++', '+='):
                            adv_vars.add(p)
                        elif not qtype(t).rstrip().endswith('*') and op in ('--', '-='):
                            dec_vars.add(p)
            counts = {c for c in dec_vars if c in cnames}
            if not counts or not adv_vars:
                continue
            cursors = set()
            for nid in body:
                n = cfg.nodes[nid]
                if isinstance(n.ast, dict):
                    for x in walk(n.ast):
                        if x.get('kind') == 'DeclRefExpr' and access_path(x) in adv_vars:
                            if _derives_from(rd, nid, x, pnames):
                                cursors.add(access_path(x))
            if not cursors:
                continue
            rep.instance(rid)
            if dom is None:
                dom = cfg.dominators()
            # count tests inside the loop
            tests = []
            for nid in body:
                n = cfg.nodes[nid]
                if n.kind == 'cond' and isinstance(n.ast, dict):
                    s = strip_parens(n.ast)
                    if s.get('kind') == 'BinaryOperator' and s.get('opcode') in ('>', '!=', '>=', '<'):
                        a, b = children(s)
                        pa, pb = access_path(a), access_path(b)
                        if (pa in counts and int_value(b) is not None) or (pb in counts and int_value(a) is not None):
                            tests.append(n)
                    elif access_path(s) in counts:
                        tests.append(n)
            bad = []
            for nid in sorted(body):
                n = cfg.nodes[nid]
                if not isinstance(n.ast, dict):
                    continue
                for x in walk(n.ast):
                    if (x.get('kind') == 'UnaryOperator' and x.get('opcode') == '*') or x.get('kind') == 'ArraySubscriptExpr':
                        b = access_path(children(x)[0])
                        if b in cursors:
                            guarded = any(t.id in dom[nid] and t.id != nid for t in tests)
                            if not guarded:
                                bad.append((n, x))
            rep.oblige(rid, not bad, {'function': f.name, 'loop_line': head.line, 'cursor': sorted(cursors),
                                      'count': sorted(counts), 'count_tests': len(tests)})
            for (n, x) in bad[:1]:
                rep.violation(rid, f, x.get('_line'), 'deref:%s' % canon(x),
                              'the scan dereferences %s before testing the remaining count %s in the same iteration: '
                              'one byte past the buffer is read (and a zero byte may end the scan early)'
                              % (canon(x), sorted(counts)))


def _loop_nodes(cfg, head):
    # nodes that can reach head (backwards) intersected with nodes reachable from head
    fwd = set()
    work = [head]
    while work:
        n = work.pop()
        if n.id in fwd:
            continue
        fwd.add(n.id)
        for (s, _l) in n.succs:
            work.append(s)
    bwd = set()
    work = [head]
    while work:
        n = work.pop()
        if n.id in bwd:
            continue
        bwd.add(n.id)
        for (p, _l) in n.preds:
            work.append(p)
    return (fwd & bwd)


# --------------------------------------------------------------------------------------
# normalised statement events

def _const_locals(f):
    """const-qualified locals with a constant initialiser: name -> int"""
    from .expr import var_init
    out = {}
    for x in walk(f.body):
        if x.get('kind') == 'VarDecl' and qtype(x).startswith('const '):
            init = var_init(x)
            if init is not None:
                v = int_value(init)
                if v is not None and not isinstance(v, str):
                    out[x.get('name')] = v
    return out


def norm(e, consts, width=None):
    """Nested-tuple normal form of an expression: constants folded, const locals substituted,
    rotates recognised, commutative operands sorted, casts dropped."""
    s = strip(e)
    v = int_value(s)
    if v is not None and not isinstance(v, str):
        return v
    k = s.get('kind')
    if k == 'DeclRefExpr':
        nm = access_path(s) or canon(s)
        return consts[nm] if nm in consts else ('v', nm)
    if k == 'MemberExpr':
        return ('v', canon(s))
    if k == 'ArraySubscriptExpr':
        a, b = children(s)
        return ('idx', norm(a, consts), norm(b, consts))
    if k == 'UnaryOperator':
        op = s.get('opcode')
        if op == '*':
            return ('deref', norm(children(s)[0], consts))
        return (op, norm(children(s)[0], consts))
    if k == 'BinaryOperator':
        op = s.get('opcode')
        a, b = children(s)
        na, nb = norm(a, consts), norm(b, consts)
        if op == '|':
            # rotate: (X << a) | (X >> b)
            for (l, r) in ((na, nb), (nb, na)):
                if isinstance(l, tuple) and isinstance(r, tuple) and l[0] == '<<' and r[0] == '>>' and l[1] == r[1] \
                        and isinstance(l[2], int) and isinstance(r[2], int):
                    return ('rotl', l[1], l[2], r[2])
        if op in ('+', '*', '^', '|', '&'):
            x, y = sorted((na, nb), key=repr)
            return (op, x, y)
        if op in ('<<', '>>') and nb == 0:
            return na
        return (op, na, nb)
    if k == 'ConditionalOperator':
        return ('?:',) + tuple(norm(c, consts) for c in children(s))
    if k == 'CallExpr':
        return ('call', canon(children(s)[0])) + tuple(norm(c, consts) for c in children(s)[1:])
    return ('?', k)


def stmt_events(stmts, consts):
    """Ordered events for a list of statements (expression statements and declarations with initialisers)."""
    from .expr import var_init
    out = []
    for st in stmts:
        k = st.get('kind')
        if k == 'CompoundStmt':
            out += stmt_events(children(st), consts)
        elif k == 'DeclStmt':
            for d in children(st):
                if d.get('kind') == 'VarDecl':
                    init = var_init(d)
                    if init is not None:
                        out.append(('set', d.get('name'), norm(init, consts), d.get('_line')))
        elif k == 'BinaryOperator' and st.get('opcode') == '=':
            l, r = children(st)
            rs = strip(r)
            if rs.get('kind') == 'BinaryOperator' and rs.get('opcode') == '=':     # k1 = k2 = 0
                out += stmt_events([rs], consts)
                out.append(('set', canon(l), norm(children(rs)[1], consts), st.get('_line')))
            else:
                out.append(('set', canon(l), norm(r, consts), st.get('_line')))
        elif k == 'CompoundAssignOperator':
            l, r = children(st)
            out.append(('op', canon(l), st.get('opcode'), norm(r, consts), st.get('_line')))
        elif k in ('BinaryOperator',) and st.get('opcode') == ',':
            out += stmt_events(children(st), consts)
    return out


def V(n):
    return ('v', n)


def ROTL(x, a, w):
    return ('rotl', V(x), a, w - a)


def MULADD(x, m, c):
    return ('+',) + tuple(sorted((('*',) + tuple(sorted((V(x), m), key=repr)), c), key=repr))


def SHR(x, n):
    return ('>>', V(x), n)


def match_events(actual, expected):
    """Compare event lists modulo consistent variable renaming.  Returns (ok, message)."""
    binding = {}

    def unify(e, a):
        if isinstance(e, tuple) and e and e[0] == 'v' and isinstance(a, tuple) and a and a[0] == 'v':
            if e[1] in binding:
                return binding[e[1]] == a[1]
            if a[1] in binding.values():
                return False
            binding[e[1]] = a[1]
            return True
        if isinstance(e, tuple) and isinstance(a, tuple):
            if len(e) != len(a):
                return False
            if e and e[0] in ('+', '*', '^', '|', '&') and len(e) == 3:
                # commutative: try both orders
                save = dict(binding)
                if e[0] == a[0] and unify(e[1], a[1]) and unify(e[2], a[2]):
                    return True
                binding.clear()
                binding.update(save)
                return e[0] == a[0] and unify(e[1], a[2]) and unify(e[2], a[1])
            return all(unify(x, y) for x, y in zip(e, a))
        return e == a
    i = 0
    for idx, exp in enumerate(expected):
        if i >= len(actual):
            return False, 'step %d (%s) is missing' % (idx + 1, _show(exp)), None
        act = actual[i]
        a_core = act[:-1]
        tgt_e = V(exp[1])
        if exp[0] != a_core[0] or not unify(tgt_e, V(a_core[1])) or \
                (exp[0] == 'op' and (exp[2] != a_core[2] or not unify(exp[3], a_core[3]))) or \
                (exp[0] == 'set' and not unify(exp[2], a_core[2])):
            return False, 'step %d: expected %s, found %s' % (idx + 1, _show(exp), _show(a_core)), act[-1]
        i += 1
    if i != len(actual):
        return False, 'unexpected extra step %s' % _show(actual[i][:-1]), actual[i][-1]
    return True, 'matches (%d steps, variables %s)' % (len(expected), binding), None


def _show(ev):
    def h(x):
        if isinstance(x, int):
            return hex(x) if x > 9 else str(x)
        if isinstance(x, tuple):
            if x[0] == 'v':
                return x[1]
            return '(' + ' '.join(h(y) for y in x) + ')'
        return str(x)
    if ev[0] == 'op':
        return '%s %s %s' % (ev[1], ev[2], h(ev[3]))
    return '%s = %s' % (ev[1], h(ev[2]))


# --------------------------------------------------------------------------------------
# published parameter sets (reference algorithms)

def murmur32_spec():
    C1, C2 = 0xcc9e2d51, 0x1b873593
    body = [('set', 'k', ('idx', V('blocks'), V('i'))), ('op', 'k', '*=', C1), ('set', 'k', ROTL('k', 15, 32)),
            ('op', 'k', '*=', C2), ('op', 'h', '^=', V('k')), ('set', 'h', ROTL('h', 13, 32)),
            ('set', 'h', MULADD('h', 5, 0xe6546b64))]
    tailmix = [('op', 'k', '*=', C1), ('set', 'k', ROTL('k', 15, 32)), ('op', 'k', '*=', C2), ('op', 'h', '^=', V('k'))]
    final = [('op', 'h', '^=', V('nbytes')), ('op', 'h', '^=', SHR('h', 16)), ('op', 'h', '*=', 0x85ebca6b),
             ('op', 'h', '^=', SHR('h', 13)), ('op', 'h', '*=', 0xc2b2ae35), ('op', 'h', '^=', SHR('h', 16))]
    return dict(block=4, word=4, body=body, tailmix={1: tailmix}, final=final, kvars={1: 'k'})


def murmur128_spec():
    C1, C2 = 0x87c37b91114253d5, 0x4cf5ad432745937f
    body = [('set', 'k1', ('idx', V('blocks'), ('+', 0, ('*', 2, V('i'))))),
            ('set', 'k2', ('idx', V('blocks'), ('+', 1, ('*', 2, V('i'))))),
            ('op', 'k1', '*=', C1), ('set', 'k1', ROTL('k1', 31, 64)), ('op', 'k1', '*=', C2), ('op', 'h1', '^=', V('k1')),
            ('set', 'h1', ROTL('h1', 27, 64)), ('op', 'h1', '+=', V('h2')), ('set', 'h1', MULADD('h1', 5, 0x52dce729)),
            ('op', 'k2', '*=', C2), ('set', 'k2', ROTL('k2', 33, 64)), ('op', 'k2', '*=', C1), ('op', 'h2', '^=', V('k2')),
            ('set', 'h2', ROTL('h2', 31, 64)), ('op', 'h2', '+=', V('h1')), ('set', 'h2', MULADD('h2', 5, 0x38495ab5))]
    mix1 = [('op', 'k1', '*=', C1), ('set', 'k1', ROTL('k1', 31, 64)), ('op', 'k1', '*=', C2), ('op', 'h1', '^=', V('k1'))]
    mix2 = [('op', 'k2', '*=', C2), ('set', 'k2', ROTL('k2', 33, 64)), ('op', 'k2', '*=', C1), ('op', 'h2', '^=', V('k2'))]

    def fmix(h):
        return [('op', h, '^=', SHR(h, 33)), ('op', h, '*=', 0xff51afd7ed558ccd), ('op', h, '^=', SHR(h, 33)),
                ('op', h, '*=', 0xc4ceb9fe1a85ec53), ('op', h, '^=', SHR(h, 33))]
    final = [('op', 'h1', '^=', V('nbytes')), ('op', 'h2', '^=', V('nbytes')), ('op', 'h1', '+=', V('h2')),
             ('op', 'h2', '+=', V('h1'))] + fmix('h1') + fmix('h2') + \
            [('op', 'h1', '+=', V('h2')), ('op', 'h2', '+=', V('h1'))]
    return dict(block=16, word=8, body=body, tailmix={1: mix1, 9: mix2}, final=final, kvars={1: 'k1', 9: 'k2'})


def _norm_body_index(ev):
    """blocks[i*2+0] -> canonical index form used in the spec"""
    return ev


def rule_murmur(prog, rep, fname, spec, rid):
    f = prog.need_func(fname)
    consts = _const_locals(f)
    ptrs, cnts = _data_params(f)
    nb = cnts[0].get('name') if cnts else 'nbytes'
    B = spec['block']
    # --- exact-bytes framing: nblocks = n / B ; tail = data + nblocks*B ; loop i in [0, nblocks)
    inits = {x.get('name'): x for x in walk(f.body) if x.get('kind') == 'VarDecl'}
    from .expr import var_init

    def init_norm(name):
        d = inits.get(name)
        return norm(var_init(d), consts) if d is not None and var_init(d) is not None else None
    loops = [x for x in walk(f.body) if x.get('kind') == 'ForStmt']
    switches = [x for x in walk(f.body) if x.get('kind') == 'SwitchStmt']
    rep.broken_if(len(loops) != 1 or len(switches) != 1, '%s: expected one block loop and one tail switch' % fname)
    if len(loops) != 1 or len(switches) != 1:
        return
    loop, sw = loops[0], switches[0]
    cond = loop['inner'][2]
    cvar = None
    c = strip(cond) if cond else {}
    if c.get('kind') == 'BinaryOperator' and c.get('opcode') == '<':
        cvar = access_path(children(c)[1])
        ivar = access_path(children(c)[0])
    checks = []
    nbl = init_norm(cvar) if cvar else None
    checks.append(('block count', nbl == ('/', V(nb), B), 'number of whole blocks is %s, expected %s / %d' % (nbl, nb, B)))
    # tail pointer
    tailvar = None
    for x in walk(sw):
        if x.get('kind') == 'ArraySubscriptExpr':
            tailvar = access_path(children(x)[0])
            break
    tl = init_norm(tailvar) if tailvar else None
    want_tail = ('+',) + tuple(sorted((V(ptrs[0].get('name')), ('*',) + tuple(sorted((V(cvar), B), key=repr))), key=repr)) if cvar else None
    checks.append(('tail pointer', tl == want_tail, 'tail starts at %s, expected data + %s*%d' % (tl, cvar, B)))
    swc = norm(children(sw)[0], consts)
    checks.append(('tail selector', swc == ('&',) + tuple(sorted((V(nb), B - 1), key=repr)),
                   'tail switch selects on %s, expected %s & %d' % (swc, nb, B - 1)))
    for (what, ok, msg) in checks:
        rep.instance(rid)
        rep.oblige(rid, ok, {'function': fname, 'check': what})
        if not ok:
            rep.violation(rid, f, f.line, 'frame:%s' % what, '%s: %s - the hash would not cover exactly the given bytes' % (fname, msg))
    # --- block loop body
    body = loop['inner'][4]
    ev = stmt_events([body], consts)
    # normalise blocks[i] / blocks[i*2+0]
    ev2 = []
    for e in ev:
        if e[0] == 'set' and isinstance(e[2], tuple) and e[2][0] == 'idx':
            idx = e[2][2]
            if B == 16:
                # i*2+0 / i*2+1 -> ('+', c, ('*', 2, i))
                if isinstance(idx, tuple) and idx[0] == '*':
                    idx = ('+', 0, idx)
            e = (e[0], e[1], ('idx', e[2][1], idx), e[3])
        ev2.append(e)
    rep.instance(rid)
    ok, msg, line = match_events(ev2, [tuple(x) for x in spec['body']])
    rep.oblige(rid, ok, {'function': fname, 'phase': 'block loop', 'result': msg[:200]})
    if not ok:
        rep.violation(rid, f, line or loop.get('_line'), 'body', '%s block loop differs from the published algorithm: %s' % (fname, msg))
    # --- tail switch: byte law + fall-through + mixing
    cases = []
    cur = None
    body_sw = children(sw)[-1]

    def collect(st, acc):
        k = st.get('kind')
        if k == 'CaseStmt':
            ch = children(st)
            acc.append([int_value(ch[0]), [], st.get('_line')])
            collect(ch[-1], acc)
        elif k == 'DefaultStmt':
            acc.append(['default', [], st.get('_line')])
            collect(children(st)[-1], acc)
        elif k == 'CompoundStmt':
            for c2 in children(st):
                collect(c2, acc)
        else:
            if acc:
                acc[-1][1].append(st)
    collect(body_sw, cases)
    vals = [c0[0] for c0 in cases]
    rep.instance(rid)
    ok = vals == list(range(B - 1, 0, -1))
    rep.oblige(rid, ok, {'function': fname, 'tail_cases': vals})
    if not ok:
        rep.violation(rid, f, sw.get('_line'), 'tail-cases', '%s: tail cases are %s, expected every residue %d..1 in descending order '
                      '(fall-through)' % (fname, vals, B - 1))
    W = spec['word']
    for (val, stmts, line) in cases:
        if not isinstance(val, int):
            continue
        rep.instance(rid)
        evs = stmt_events(stmts, consts)
        has_break = any(x.get('kind') == 'BreakStmt' for s0 in stmts for x in walk(s0))
        kv = spec['kvars'][max(k0 for k0 in spec['kvars'] if k0 <= val)]
        shift = 8 * ((val - 1) % W)
        byte = ('idx', V(tailvar), val - 1)
        want = byte if shift == 0 else ('<<', byte, shift)
        ok = bool(evs) and evs[0][0] == 'op' and evs[0][2] == '^=' and evs[0][3] == want and not (has_break and val != 1)
        mixes = spec['tailmix'].get(val)
        msg = ''
        if ok and mixes:
            ok2, msg, _l = match_events(evs[1:], [tuple(x) for x in mixes])
            ok = ok2
        elif ok and len(evs) != 1:
            ok, msg = False, 'unexpected extra statements'
        rep.oblige(rid, ok, {'function': fname, 'case': val, 'first': _show(evs[0][:-1]) if evs else None})
        if not ok:
            rep.violation(rid, f, line, 'tail-case-%d' % val,
                          '%s tail case %d: expected `k ^= tail[%d] << %d`%s, found %s %s'
                          % (fname, val, val - 1, shift, ' followed by the tail mix' if mixes else '',
                             [_show(e[:-1]) for e in evs][:3], msg))
    # --- finaliser: statements after the switch
    top = children(f.body)
    after = []
    seen = False
    for st in top:
        if st is sw:
            seen = True
            continue
        if seen:
            after.append(st)
    evf = [e for e in stmt_events(after, consts)]
    # the 128-bit variant stores the result into retbuf: strip those
    core = [e for e in evf if not (e[0] == 'set' and isinstance(e[1], str) and '[' in e[1])]
    stores = [e for e in evf if e[0] == 'set' and isinstance(e[1], str) and '[' in e[1]]
    rep.instance(rid)
    ok, msg, line = match_events(core, [tuple(x) for x in spec['final']])
    rep.oblige(rid, ok, {'function': fname, 'phase': 'finaliser', 'result': msg[:200]})
    if not ok:
        rep.violation(rid, f, line or f.line, 'final', '%s finalisation differs from the published algorithm: %s' % (fname, msg))
    # seed 0
    hv = [e for e in stmt_events([s0 for s0 in top if s0 is not sw and s0 is not loop and s0 not in after], consts)
          if e[0] == 'set' and e[1] in ('h', 'h1', 'h2')]
    rep.instance(rid)
    ok = bool(hv) and all(e[2] == 0 for e in hv)
    rep.oblige(rid, ok, {'function': fname, 'seed': [e[2] for e in hv]})
    if not ok:
        rep.violation(rid, f, f.line, 'seed', '%s: the hash state must start at seed 0' % fname)
    if B == 16:
        rep.instance(rid)
        ok = [(_show(e[:-1])) for e in stores]
        good = len(stores) == 2 and stores[0][2] == V('h1') and stores[1][2] == V('h2') and '[0]' in stores[0][1] and '[1]' in stores[1][1]
        rep.oblige(rid, good, {'function': fname, 'result_stores': ok})
        if not good:
            rep.violation(rid, f, f.line, 'result', '%s: result words must be stored as [0]=h1, [1]=h2, found %s' % (fname, ok))


def rule_fnv(prog, rep, fname, basis, prime, rid):
    f = prog.need_func(fname)
    consts = _const_locals(f)
    loops = [x for x in walk(f.body) if x.get('kind') == 'ForStmt']
    rep.broken_if(len(loops) != 1, '%s: expected one scan loop' % fname)
    if len(loops) != 1:
        return
    from .expr import var_init
    hdecl = [x for x in walk(f.body) if x.get('kind') == 'VarDecl' and var_init(x) is not None and int_value(var_init(x)) == basis]
    rep.instance(rid)
    rep.oblige(rid, bool(hdecl), {'function': fname, 'offset_basis': hex(basis)})
    if not hdecl:
        rep.violation(rid, f, f.line, 'basis', '%s: FNV offset basis %s not found as the initial hash value' % (fname, hex(basis)))
        return
    h = hdecl[0].get('name')
    ev = stmt_events([loops[0]['inner'][4]], consts)
    # linear form of the multiply step: h += (h<<a)+... or h *= prime
    rep.instance(rid)
    ok = False
    msg = ''
    if len(ev) == 2 and ev[0][1] == h and ev[1][1] == h:
        coef = _linear_coef(ev[0], h)
        second = ev[1]
        ok = coef == prime and second[0] == 'op' and second[2] == '^=' and second[3] == ('deref', V('dp')) or \
            (coef == prime and second[0] == 'op' and second[2] == '^=' and isinstance(second[3], tuple) and second[3][0] in ('deref', 'idx'))
        msg = 'multiplier %s, then %s' % (hex(coef) if coef else coef, _show(second[:-1]))
    else:
        msg = 'loop body has %d statements: %s' % (len(ev), [_show(e[:-1]) for e in ev][:3])
    rep.oblige(rid, ok, {'function': fname, 'loop_body': msg, 'expected': 'h = h * %s; h ^= byte  (FNV-1 order)' % hex(prime)})
    if not ok:
        rep.violation(rid, f, loops[0].get('_line'), 'fnv-step', '%s: each byte must be folded as h = h * %s then h ^= byte (FNV-1); found %s'
                      % (fname, hex(prime), msg))


def _linear_coef(ev, h):
    """coefficient c such that the statement computes h = c*h (mod 2^w); None if not of that form"""
    def coef(x):
        if x == V(h):
            return 1
        if isinstance(x, tuple) and x[0] == '<<' and x[1] == V(h) and isinstance(x[2], int):
            return 1 << x[2]
        if isinstance(x, tuple) and x[0] == '+' and len(x) == 3:
            a, b = coef(x[1]), coef(x[2])
            return None if a is None or b is None else a + b
        if isinstance(x, tuple) and x[0] == '*' and len(x) == 3:
            for (p, q) in ((x[1], x[2]), (x[2], x[1])):
                if isinstance(p, int) and coef(q) is not None:
                    return p * coef(q)
        return None
    if ev[0] == 'op' and ev[2] == '*=' and isinstance(ev[3], int):
        return ev[3]
    if ev[0] == 'op' and ev[2] == '+=':
        c = coef(ev[3])
        return None if c is None else 1 + c
    if ev[0] == 'set':
        return coef(ev[2])
    return None


# --------------------------------------------------------------------------------------
# MD5 (RFC 1321): initial state, the 64 steps of MD5Transform, the four round functions

def rule_md5(prog, rep, rid='H5-md5'):
    import math
    rep.rule(rid, 'MD5: initial state, the four round functions (truth tables), and all 64 steps (register rotation, message word, '
                  'shift amount, sine-derived constant) agree with RFC 1321')
    u = prog.unit('src/internal/md5/md5c.c')
    finit = prog.need_func('MD5Init')
    ftr = prog.need_func('MD5Transform', 'src/internal/md5/md5c.c')
    want_init = [0x67452301, 0xefcdab89, 0x98badcfe, 0x10325476]
    got = {}
    for x in walk(finit.body):
        if x.get('kind') == 'BinaryOperator' and x.get('opcode') == '=':
            l = strip(children(x)[0])
            if l.get('kind') == 'ArraySubscriptExpr' and canon(children(l)[0]).endswith('->state'):
                got[int_value(children(l)[1])] = int_value(children(x)[1])
    for i, v in enumerate(want_init):
        rep.instance(rid)
        ok = got.get(i) == v
        rep.oblige(rid, ok, {'state': i, 'value': hex(got.get(i) or 0)} if i == 0 else None)
        if not ok:
            rep.violation(rid, finit, finit.line, 'state[%d]' % i, 'MD5 initial state[%d] is %s, RFC 1321 requires %s'
                          % (i, hex(got.get(i) or 0), hex(v)))
    # steps: compound statements produced by the FF/GG/HH/II macros
    steps = []
    for st in children(ftr.body):
        if st.get('kind') == 'CompoundStmt' and st.get('_macro') in ('FF', 'GG', 'HH', 'II'):
            steps.append(st)
    rep.instance(rid)
    rep.oblige(rid, len(steps) == 64, {'steps_found': len(steps)})
    if len(steps) != 64:
        rep.violation(rid, ftr, ftr.line, 'steps', 'MD5Transform has %d round steps, expected 64' % len(steps))
        return
    regs0 = None
    order = ['a', 'd', 'c', 'b']
    SH = [[7, 12, 17, 22], [5, 9, 14, 20], [4, 11, 16, 23], [6, 10, 15, 21]]
    funcs = {}
    for i, st in enumerate(steps):
        rep.instance(rid)
        ev = stmt_events([st], {})
        ok = False
        why = ''
        r = i // 16
        kexp = [i, (1 + 5 * i) % 16, (5 + 3 * i) % 16, (7 * i) % 16][r]
        sexp = SH[r][i % 4]
        texp = int(abs(math.sin(i + 1)) * 4294967296) & 0xFFFFFFFF
        if len(ev) == 3 and ev[0][0] == 'op' and ev[0][2] == '+=' and ev[1][0] == 'set' and ev[2][0] == 'op' and ev[2][2] == '+=':
            a = ev[0][1]
            # collect the addends of the first statement
            adds = []

            def flat(x):
                if isinstance(x, tuple) and x[0] == '+':
                    flat(x[1])
                    flat(x[2])
                else:
                    adds.append(x)
            flat(ev[0][3])
            consts_ = [x for x in adds if isinstance(x, int)]
            words = [x for x in adds if isinstance(x, tuple) and x[0] == 'idx']
            fn = [x for x in adds if not isinstance(x, int) and not (isinstance(x, tuple) and x[0] == 'idx')]
            rot = ev[1][2]
            bvar = ev[2][3]
            if regs0 is None:
                regs0 = a
            want_a = order[i % 4]
            ok = (a == want_a and len(consts_) == 1 and consts_[0] == texp and len(words) == 1 and words[0][2] == kexp
                  and isinstance(rot, tuple) and rot[0] == 'rotl' and rot[1] == V(a) and rot[2] == sexp and rot[3] == 32 - sexp
                  and bvar == V(order[(i % 4 + 3) % 4]) and len(fn) == 1)
            why = 'register %s (want %s), constant %s (want %s), word x[%s] (want x[%d]), shift %s (want %d), added %s' % (
                a, want_a, hex(consts_[0]) if consts_ else None, hex(texp), words[0][2] if words else None, kexp,
                rot[2] if isinstance(rot, tuple) and len(rot) > 2 else rot, sexp, bvar)
            if len(fn) == 1:
                funcs.setdefault(st.get('_macro'), fn[0])
        rep.oblige(rid, ok, {'step': i + 1, 'detail': why} if i in (0, 16, 32, 48, 63) else None)
        if not ok:
            rep.violation(rid, ftr, st.get('_line'), 'step-%d' % (i + 1), 'MD5 step %d differs from RFC 1321: %s' % (i + 1, why))
    # round functions by truth table on bits (b, c, d of step 1 ordering: F(b,c,d))
    truth = {'FF': lambda x, y, z: (x & y) | ((~x) & z), 'GG': lambda x, y, z: (x & z) | (y & (~z)),
             'HH': lambda x, y, z: x ^ y ^ z, 'II': lambda x, y, z: y ^ (x | (~z))}
    first = {m: next(i for i, st in enumerate(steps) if st.get('_macro') == m) for m in funcs}
    for m, expr in funcs.items():
        rep.instance(rid)
        i = first[m]
        x_, y_, z_ = order[(i % 4 + 3) % 4], order[(i % 4 + 2) % 4], order[(i % 4 + 1) % 4]
        ok = True
        for bits in range(8):
            env = {x_: (bits >> 2) & 1, y_: (bits >> 1) & 1, z_: bits & 1}
            got_v = _eval_norm(expr, env)
            if got_v is None or (got_v & 1) != (truth[m](env[x_], env[y_], env[z_]) & 1):
                ok = False
                break
        rep.oblige(rid, ok, {'round_function': m, 'expression': _show(('set', m, expr))[:80]})
        if not ok:
            rep.violation(rid, ftr, ftr.line, 'roundfn-%s' % m, 'MD5 round function of %s does not have the RFC 1321 truth table' % m)
    rep.instance(rid)
    rep.oblige(rid, set(funcs) == {'FF', 'GG', 'HH', 'II'}, {'round_macros': sorted(funcs)})


def _eval_norm(x, env):
    if isinstance(x, int):
        return x
    if isinstance(x, tuple):
        if x[0] == 'v':
            return env.get(x[1])
        if x[0] == '~':
            a = _eval_norm(x[1], env)
            return None if a is None else ~a
        if x[0] in ('&', '|', '^') and len(x) == 3:
            a, b = _eval_norm(x[1], env), _eval_norm(x[2], env)
            if a is None or b is None:
                return None
            return {'&': a & b, '|': a | b, '^': a ^ b}[x[0]]
    return None


# --------------------------------------------------------------------------------------
# H1: data-oblivious termination ; H6: consumers

def rule_h1(prog, rep, rid='H1'):
    rep.rule(rid, 'no loop condition or early exit of a hash function depends on a byte of the data (the result covers all given bytes)')
    for f in sorted(prog.funcs_in(HASH_UNIT), key=lambda x: x.line or 0):
        ptrs, cnts = _data_params(f)
        if not ptrs or not cnts or f.name.endswith('_file'):
            continue
        rd = ReachingDefs(f)
        pn = [p.get('name') for p in ptrs if 'void' in qtype(p) or 'char' in qtype(p)]
        rep.instance(rid)
        bad = None
        for n in f.cfg.nodes:
            if n.kind != 'cond' or not isinstance(n.ast, dict) or n.id not in f.cfg.reachable:
                continue
            for x in walk(n.ast):
                b = None
                if x.get('kind') == 'UnaryOperator' and x.get('opcode') == '*':
                    b = children(x)[0]
                elif x.get('kind') == 'ArraySubscriptExpr':
                    b = children(x)[0]
                if b is not None and _derives_from(rd, n.id, b, pn):
                    bad = (n, x)
                    break
            if bad:
                break
        rep.oblige(rid, bad is None, {'function': f.name})
        if bad:
            n, x = bad
            rep.violation(rid, f, x.get('_line'), 'cond:%s' % canon(x)[:30],
                          'the branch condition %s reads a data byte (%s): some content ends the scan early, so the result does not '
                          'depend on all given bytes' % (canon(n.ast)[:60], canon(x)[:30]))


def rule_h6(prog, rep, rid='H6'):
    rep.rule(rid, 'the containers derive slots from qhashmurmur3_32 % size and the long-key digest from qhashmd5')
    sites = []
    for rel in ('src/containers/qhasharr.c', 'src/containers/qhashtbl.c'):
        for f in prog.funcs_in(rel):
            for x in walk(f.body):
                nm = prog.callee_name(x) if x.get('kind') == 'CallExpr' else None
                tgt = prog.funcs.get(nm) if nm else None
                if tgt is not None and tgt.unit.rel == HASH_UNIT:
                    sites.append((f, x, nm))
    for (f, x, nm) in sites:
        rep.instance(rid)
        ok = nm in ('qhashmurmur3_32', 'qhashmd5')
        rep.oblige(rid, ok, {'function': f.name, 'hash': nm, 'line': x.get('_line')})
        if not ok:
            rep.violation(rid, f, x.get('_line'), 'hash:%s' % nm, '%s uses %s(): stored images / other operations use qhashmurmur3_32 '
                          'for slots and qhashmd5 for key digests' % (f.name, nm))


def rule_c18(prog, rep):
    prog.unit(HASH_UNIT)
    rule_h1(prog, rep)
    rule_h2(prog, rep)
    rep.rule('H3-m32', 'MurmurHash3 x86_32: block framing, loop body, tail byte law, tail mix, finaliser, seed 0 equal the published algorithm')
    rule_murmur(prog, rep, 'qhashmurmur3_32', murmur32_spec(), 'H3-m32')
    rep.rule('H3-m128', 'MurmurHash3 x64_128: block framing, loop body, tail byte law, tail mixes, finaliser, seed 0, result order')
    rule_murmur(prog, rep, 'qhashmurmur3_128', murmur128_spec(), 'H3-m128')
    rep.rule('H4-fnv', 'FNV-1: offset basis, prime (from the shift-add linear form or the literal), multiply-then-xor order')
    rule_fnv(prog, rep, 'qhashfnv1_32', 0x811C9DC5, 0x01000193, 'H4-fnv')
    rule_fnv(prog, rep, 'qhashfnv1_64', 0xCBF29CE484222325, 0x100000001B3, 'H4-fnv')
    rule_md5(prog, rep)
    rule_h6(prog, rep)


# ======================================================================================================
# Value-graph comparison (forward substitution, see valgraph.py): robust against helper extraction,
# statement splitting, macro/enum renaming and switch <-> if-chain rewrites.

from .valgraph import VG, Forward, NotStraight


def _addr_cond(e):
    """the condition tests the address held by a pointer (pointer cast to an integer type)"""
    for x in walk(e):
        if x.get('kind') == 'CStyleCastExpr':
            t = (qtype(x) or '').replace('const ', '').strip()
            if t in ('uintptr_t', 'intptr_t', 'size_t', 'unsigned long', 'long', 'uint64_t'):
                o = strip(children(x)[0])
                if (qtype(o) or '').rstrip().endswith('*'):
                    return True
    return False


def _top_split(f, choices=None):
    """(pre statements, loop statement, post statements) at the top level of the function body.  A top-level `if` on an
    address-dependent condition (alignment split) whose arms hold the block loop is replaced by the arm the current choice
    selects (NeedChoice is raised while the choice is open)."""
    from .valgraph import NeedChoice
    top = []
    for st in children(f.body):
        if st.get('kind') == 'IfStmt' and _addr_cond(st['inner'][0]) and any(
                y.get('kind') in ('ForStmt', 'WhileStmt') for y in walk(st)):
            key = canon(st['inner'][0])
            if choices is None or key not in choices:
                raise NeedChoice(key)
            arm = st['inner'][1] if choices[key] else (st['inner'][2] if len(st['inner']) > 2 else None)
            if arm is not None:
                top += list(children(arm)) if arm.get('kind') == 'CompoundStmt' else [arm]
            continue
        top.append(st)
    loops = [i for i, st in enumerate(top) if st.get('kind') in ('ForStmt', 'WhileStmt')]
    if len(loops) != 1:
        return None
    i = loops[0]
    return top[:i], top[i], top[i + 1:]


def _scratch_words(body):
    """scalars that only receive a block by memcpy(&k, p, sizeof k) inside the loop body: a load, not hash state"""
    out = set()
    for y in walk(body):
        if y.get('kind') == 'CallExpr' and len(children(y)) >= 3:
            c0 = strip(children(y)[0])
            if (c0.get('referencedDecl') or {}).get('name') == 'memcpy':
                d = strip(children(y)[1])
                if d.get('kind') == 'UnaryOperator' and d.get('opcode') == '&' and strip(children(d)[0]).get('kind') == 'DeclRefExpr':
                    out.add(canon(children(d)[0]))
    return out


def _pointer_locals(f):
    out = set()
    for x in walk(f.body):
        if x.get('kind') == 'VarDecl' and (qtype(x) or '').rstrip().endswith('*'):
            out.add(x.get('name'))
    return out


def _is_guard(st):
    """`if (bad arguments) return ...;` at the top of a function"""
    if st.get('kind') != 'IfStmt':
        return False
    then = st['inner'][1]
    return any(x.get('kind') == 'ReturnStmt' for x in walk(then)) and len(st['inner']) < 3 or \
        (st.get('kind') == 'IfStmt' and then.get('kind') == 'ReturnStmt')


def _loop_parts(loop):
    if loop.get('kind') == 'ForStmt':
        init, _cv, cond, inc, body = loop['inner']
        return init, cond, inc, body
    return None, loop['inner'][0], None, loop['inner'][1]


def _assigned_keys(node):
    out = set()
    for x in walk(node):
        k = x.get('kind')
        if (k == 'BinaryOperator' and x.get('opcode') == '=') or k == 'CompoundAssignOperator':
            p = access_path(children(x)[0])
            if p:
                out.add(p)
        elif k == 'UnaryOperator' and x.get('opcode') in ('++', '--'):
            p = access_path(children(x)[0])
            if p:
                out.add(p)
    return out


def _report_mismatch(rep, rid, f, line, what, vg, got, want):
    cg, cw = vg.constants(got), vg.constants(want)
    extra = [c for c in cg if c not in cw]
    missing = [c for c in cw if c not in cg]
    hint = ''
    if extra or missing:
        def h(xs):
            out = []
            for x in xs[:4]:
                try:
                    v = eval(x)
                    out.append(hex(v) if isinstance(v, int) else str(v))
                except Exception:
                    out.append(x)
            return out
        hint = ' (parameters only in the code: %s; only in the published algorithm: %s)' % (h(extra), h(missing))
    rep.violation(rid, f, line, what.replace(' ', '-')[:40],
                  '%s: %s does not compute the published function%s; code: %s ; published: %s'
                  % (f.name, what, hint, vg.show(got)[:160], vg.show(want)[:160]))


def murmur_ref(vg, which, state, blocks, tail, n, r):
    """Published MurmurHash3 (seed handled by the caller): returns dict phase results.
    state: dict of input nodes; blocks: list of block word nodes; tail: function j -> byte node; n: length node; r: residue"""
    C = vg.const
    if which == 32:
        C1, C2 = C(0xcc9e2d51, 32), C(0x1b873593, 32)

        def mixk(k):
            k = vg.mul(k, C1, 32)
            k = vg.bor(vg.shl(k, C(15), 32), vg.shr(k, C(17), 32), 32)
            return vg.mul(k, C2, 32)

        def body(h, k):
            h = vg.bxor(h, mixk(k), 32)
            h = vg.bor(vg.shl(h, C(13), 32), vg.shr(h, C(19), 32), 32)
            return vg.add(vg.mul(h, C(5), 32), C(0xe6546b64, 32), 32)

        def final(h):
            k = C(0, 32)
            for j in range(r, 0, -1):
                k = vg.bxor(k, vg.shl(tail(j - 1), C(8 * (j - 1)), 32), 32)
            if r:
                h = vg.bxor(h, mixk(k), 32)
            h = vg.bxor(h, n, 32)
            h = vg.bxor(h, vg.shr(h, C(16), 32), 32)
            h = vg.mul(h, C(0x85ebca6b, 32), 32)
            h = vg.bxor(h, vg.shr(h, C(13), 32), 32)
            h = vg.mul(h, C(0xc2b2ae35, 32), 32)
            h = vg.bxor(h, vg.shr(h, C(16), 32), 32)
            return h
        return body, final
    C1, C2 = C(0x87c37b91114253d5, 64), C(0x4cf5ad432745937f, 64)

    def rot(x, a):
        return vg.bor(vg.shl(x, C(a), 64), vg.shr(x, C(64 - a), 64), 64)

    def mix1(k):
        return vg.mul(rot(vg.mul(k, C1, 64), 31), C2, 64)

    def mix2(k):
        return vg.mul(rot(vg.mul(k, C2, 64), 33), C1, 64)

    def body(h1, h2, k1, k2):
        h1 = vg.bxor(h1, mix1(k1), 64)
        h1 = rot(h1, 27)
        h1 = vg.add(h1, h2, 64)
        h1 = vg.add(vg.mul(h1, C(5), 64), C(0x52dce729, 64), 64)
        h2 = vg.bxor(h2, mix2(k2), 64)
        h2 = rot(h2, 31)
        h2 = vg.add(h2, h1, 64)
        h2 = vg.add(vg.mul(h2, C(5), 64), C(0x38495ab5, 64), 64)
        return h1, h2

    def fmix(k):
        k = vg.bxor(k, vg.shr(k, C(33), 64), 64)
        k = vg.mul(k, C(0xff51afd7ed558ccd, 64), 64)
        k = vg.bxor(k, vg.shr(k, C(33), 64), 64)
        k = vg.mul(k, C(0xc4ceb9fe1a85ec53, 64), 64)
        return vg.bxor(k, vg.shr(k, C(33), 64), 64)

    def final(h1, h2):
        k1 = k2 = C(0, 64)
        for j in range(r, 8, -1):
            k2 = vg.bxor(k2, vg.shl(tail(j - 1), C(8 * (j - 9)), 64), 64)
        if r > 8:
            h2 = vg.bxor(h2, mix2(k2), 64)
        for j in range(min(r, 8), 0, -1):
            k1 = vg.bxor(k1, vg.shl(tail(j - 1), C(8 * (j - 1)), 64), 64)
        if r > 0:
            h1 = vg.bxor(h1, mix1(k1), 64)
        h1 = vg.bxor(h1, n, 64)
        h2 = vg.bxor(h2, n, 64)
        h1 = vg.add(h1, h2, 64)
        h2 = vg.add(h2, h1, 64)
        h1, h2 = fmix(h1), fmix(h2)
        h1 = vg.add(h1, h2, 64)
        h2 = vg.add(h2, h1, 64)
        return h1, h2
    return body, final


def rule_murmur_vg(prog, rep, fname, which, rid):
    """the comparison below, once per outcome of every address-dependent condition the function contains (an alignment test of
    the input pointer): the published algorithm does not depend on where the key is stored, so each combination must match"""
    from .valgraph import NeedChoice

    def explore(choices):
        try:
            _murmur_vg_once(prog, rep, fname, which, rid, choices)
        except NeedChoice as e:
            if len(choices) >= 3:
                rep.broken.append('%s: more than 3 address-dependent conditions' % fname)
                return
            rep.notes.setdefault('address_dependent_conditions', {}).setdefault(fname, [])
            if e.key not in rep.notes['address_dependent_conditions'][fname]:
                rep.notes['address_dependent_conditions'][fname].append(e.key)
            for val in (True, False):
                c2 = dict(choices)
                c2[e.key] = val
                explore(c2)
    explore({})


def _murmur_vg_once(prog, rep, fname, which, rid, choices):
    f = prog.need_func(fname)
    parts = _top_split(f, choices)
    rep.broken_if(parts is None, '%s: expected exactly one block loop at the top level' % fname)
    if parts is None:
        return
    pre, loop, post = parts
    ptrs, cnts = _data_params(f)
    dname, nname = ptrs[0].get('name'), cnts[0].get('name')
    B = 4 if which == 32 else 16
    W = 32 if which == 32 else 64
    init, cond, inc, body = _loop_parts(loop)
    ctr = None
    if inc is not None:
        ks = _assigned_keys(inc)
        ctr = sorted(ks)[0] if ks else None

    def pre_env(fw, vg):
        env = {}
        for st in pre:
            if _is_guard(st):
                continue
            fw.stmt(st, env)
        return env

    # ---------------- framing + block loop
    vg = VG()
    try:
        fw = Forward(prog, f, vg)
        fw.choices = choices
        env0 = pre_env(fw, vg)
        n, data = vg.sym(nname), vg.sym(dname)
        # loop bound: a block counter running to n / B, or a block pointer running from the data to data + B * (n / B)
        c = strip_parens(cond) if cond else {}
        ptrs_local = _pointer_locals(f)
        cursor = None
        if c.get('kind') == 'BinaryOperator' and c.get('opcode') in ('<', '!='):
            l0 = strip(children(c)[0])
            if l0.get('kind') == 'DeclRefExpr' and (l0.get('referencedDecl') or {}).get('name') in ptrs_local:
                cursor = (l0.get('referencedDecl') or {}).get('name')
        bound = fw.ev(children(c)[1], dict(env0)) if c.get('kind') == 'BinaryOperator' and c.get('opcode') in ('<', '!=') else None
        # count-down form: `for (i = nblocks; i > 0; i--, p += ...)` - the counter starts at the block count, block pointers walk
        down = None
        if cursor is None and c.get('kind') == 'BinaryOperator' and c.get('opcode') in ('>', '!=') and int_value_(children(c)[1]) == 0:
            l0 = strip(children(c)[0])
            nm0 = (l0.get('referencedDecl') or {}).get('name') if l0.get('kind') == 'DeclRefExpr' else None
            if nm0 and nm0 not in ptrs_local and any(
                    y.get('kind') == 'UnaryOperator' and y.get('opcode') == '--' and canon(children(y)[0]) == nm0
                    for y in walk(loop)):
                down = nm0
        rep.instance(rid)
        if down is not None:
            envd = dict(env0)
            if init is not None:
                fw.stmt(init, envd)
            trip = envd.get(down)
            walkers = sorted({(strip(children(y)[0]).get('referencedDecl') or {}).get('name') for y in walk(loop)
                              if ((y.get('kind') == 'UnaryOperator' and y.get('opcode') == '++') or
                                  (y.get('kind') == 'CompoundAssignOperator' and y.get('opcode') == '+='))
                              and strip(children(y)[0]).get('kind') == 'DeclRefExpr'} & ptrs_local)
            ok = trip == vg.div(n, vg.const(B), 64) and bool(walkers) and all(envd.get(w) == data for w in walkers)
            shown = '%s blocks counted down, block pointer(s) %s' % (vg.show(trip) if trip is not None else '?', walkers)
            env0 = envd
            ctr = down
        elif cursor is not None:
            start = env0.get(cursor)
            span = vg.add(bound, start, 64, -1) if (bound is not None and start is not None) else None
            ok = start == data and span == vg.mul(vg.div(n, vg.const(B), 64), vg.const(B), 64)
            ctr = cursor
            shown = 'from %s over %s bytes' % (vg.show(start) if start is not None else '?', vg.show(span) if span is not None else '?')
        else:
            want_bound = vg.div(n, vg.const(B), 64)
            ok = bound == want_bound and ctr is not None
            shown = vg.show(bound) if bound is not None else canon(cond)[:40]
        rep.oblige(rid, ok, {'function': fname, 'check': 'block count', 'value': shown})
        if not ok:
            rep.violation(rid, f, loop.get('_line'), 'frame-block-count', '%s: the block loop runs %s, expected %s / %d blocks from the start of '
                          'the data: the hash would not cover exactly the given bytes' % (fname, shown, nname, B))
        state = sorted(k for k in _assigned_keys(body) if k in env0 and k != ctr and k not in ptrs_local and k not in _scratch_words(body))
        rep.broken_if(len(state) != (1 if which == 32 else 2), '%s: hash state variables not identified (%s)' % (fname, state))
        env = dict(env0)
        ins = {}
        for v in state:
            ins[v] = env[v] = vg.sym(v + '@in')
        i_ = vg.sym('i')
        if down is not None:
            for w in walkers:
                env[w] = vg.add(data, vg.mul(i_, vg.const(B), 64), 64)       # the i-th block
            env[down] = vg.sym('left')
        elif cursor is not None:
            env[cursor] = vg.add(data, vg.mul(i_, vg.const(B), 64), 64)       # the i-th block
        elif ctr:
            env[ctr] = i_
        fw.stmt(body, env)
        if down is not None:
            if inc is not None:
                fw.stmt(inc, env) if inc.get('kind') in ('BinaryOperator', 'CompoundAssignOperator', 'UnaryOperator') else fw.ev(inc, env)
            rep.instance(rid)
            okc = all(env.get(w) == vg.add(data, vg.mul(vg.add(i_, vg.const(1), 64), vg.const(B), 64), 64) for w in walkers)
            rep.oblige(rid, okc, {'function': fname, 'check': 'block step'})
            if not okc:
                rep.violation(rid, f, loop.get('_line'), 'frame-block-step', '%s: a block pointer does not advance by exactly one block (%d bytes) '
                              'per iteration' % (fname, B))
        if cursor is not None:
            # the cursor advances by exactly one block per iteration (in the body or in the loop header)
            if inc is not None:
                fw.stmt(inc, env) if inc.get('kind') in ('BinaryOperator', 'CompoundAssignOperator', 'UnaryOperator') else fw.ev(inc, env)
            rep.instance(rid)
            okc = env.get(cursor) == vg.add(data, vg.mul(vg.add(i_, vg.const(1), 64), vg.const(B), 64), 64)
            rep.oblige(rid, okc, {'function': fname, 'check': 'block step'})
            if not okc:
                rep.violation(rid, f, loop.get('_line'), 'frame-block-step', '%s: the block pointer advances to %s per iteration, expected one '
                              'block (%d bytes)' % (fname, vg.show(env.get(cursor)) if env.get(cursor) is not None else '?', B))
        if which == 32:
            refbody, _ = murmur_ref(vg, 32, None, None, None, n, 0)
            want = [refbody(ins[state[0]], vg.load(vg.add(data, vg.mul(i_, vg.const(4), 64), 64), 32))]
        else:
            refbody, _ = murmur_ref(vg, 128, None, None, None, n, 0)
            k1 = vg.load(vg.add(data, vg.mul(i_, vg.const(16), 64), 64), 64)
            k2 = vg.load(vg.add(vg.add(data, vg.mul(i_, vg.const(16), 64), 64), vg.const(8), 64), 64)
            want = list(refbody(ins[state[0]], ins[state[1]], k1, k2))
        for v, w_ in zip(state, want):
            rep.instance(rid)
            ok = env[v] == w_
            rep.oblige(rid, ok, {'function': fname, 'phase': 'block loop', 'state': v})
            if not ok:
                _report_mismatch(rep, rid, f, loop.get('_line'), 'block loop (%s)' % v, vg, env[v], w_)
        # seed 0
        for v in state:
            rep.instance(rid)
            ok = env0[v] == vg.const(0, W) or env0[v] == vg.const(0)
            rep.oblige(rid, ok, {'function': fname, 'seed_of': v})
            if not ok:
                rep.violation(rid, f, f.line, 'seed', '%s: %s must start at seed 0, found %s' % (fname, v, vg.show(env0[v])))
    except NotStraight as e:
        rep.broken.append('%s block loop cannot be normalised: %s' % (fname, e))
        return
    # ---------------- tail + finaliser, one residue class at a time
    for r in range(B):
        vg = VG()
        rep.instance(rid)
        try:
            fw = Forward(prog, f, vg, residue=(nname, B, r))
            fw.choices = choices
            env = pre_env(fw, vg)
            n, data = vg.sym(nname), vg.sym(dname)
            ins = {}
            for v in state:
                ins[v] = env[v] = vg.sym(v + '@in')
            ret = fw.run(post, env)
            tailbase = vg.add(data, vg.mul(vg.div(n, vg.const(B), 64), vg.const(B), 64), 64)

            def tail(j):
                return vg.load(vg.add(tailbase, vg.const(j), 64), 8)
            if which == 32:
                _, reffinal = murmur_ref(vg, 32, None, None, tail, n, r)
                got = [ret]
                want = [reffinal(ins[state[0]])]
            else:
                _, reffinal = murmur_ref(vg, 128, None, None, tail, n, r)
                outs = sorted(k for k in env if k.endswith('[0]') or k.endswith('[1]'))
                outs = [k for k in outs if not k.startswith(('x[', 'tail['))]
                got = [env.get(outs[0]) if len(outs) > 0 else None, env.get(outs[1]) if len(outs) > 1 else None]
                want = list(reffinal(ins[state[0]], ins[state[1]]))
            ok = all(g is not None and g == w_ for g, w_ in zip(got, want)) and len(got) == len(want)
            rep.oblige(rid, ok, {'function': fname, 'phase': 'tail+finaliser', 'length_mod_%d' % B: r} if r in (0, 1, B - 1) else None)
            if not ok:
                for g, w_ in zip(got, want):
                    if g is None:
                        rep.violation(rid, f, f.line, 'result-%d' % r, '%s: no result produced for length %% %d == %d' % (fname, B, r))
                    elif g != w_:
                        _report_mismatch(rep, rid, f, (post[0].get('_line') if post else f.line), 'tail and finaliser for length %% %d == %d' % (B, r), vg, g, w_)
                        break
        except NotStraight as e:
            rep.oblige(rid, False)
            rep.broken.append('%s tail/finaliser (length %% %d == %d) cannot be normalised: %s' % (fname, B, r, e))
            return


def rule_fnv_vg(prog, rep, fname, basis, prime, W, rid):
    f = prog.need_func(fname)
    parts = _top_split(f)
    rep.broken_if(parts is None, '%s: expected exactly one scan loop' % fname)
    if parts is None:
        return
    pre, loop, post = parts
    vg = VG()
    try:
        fw = Forward(prog, f, vg)
        env0 = {}
        for st in pre:
            if not _is_guard(st):
                fw.stmt(st, env0)
        init, cond, inc, body = _loop_parts(loop)
        ptrs_local = _pointer_locals(f)
        state = sorted(k for k in _assigned_keys(body) if k in env0 and k not in ptrs_local)
        rep.broken_if(len(state) != 1, '%s: hash state variable not identified (%s)' % (fname, state))
        if len(state) != 1:
            return
        h = state[0]
        rep.instance(rid)
        ok = env0[h] == vg.const(basis, W)
        rep.oblige(rid, ok, {'function': fname, 'offset_basis': vg.show(env0[h])})
        if not ok:
            rep.violation(rid, f, f.line, 'basis', '%s: initial value %s is not the FNV offset basis %s' % (fname, vg.show(env0[h]), hex(basis)))
        env = dict(env0)
        hin = env[h] = vg.sym('h@in')
        fw.stmt(body, env)
        # the byte read: the dereference of the scanning cursor
        byte = None
        for x in walk(body):
            if (x.get('kind') == 'UnaryOperator' and x.get('opcode') == '*') or x.get('kind') == 'ArraySubscriptExpr':
                byte = fw.ev(x, dict(env0))
        rep.instance(rid)
        want = vg.bxor(vg.mul(hin, vg.const(prime, W), W), byte, W) if byte is not None else None
        ok = want is not None and env[h] == want
        rep.oblige(rid, ok, {'function': fname, 'step': vg.show(env[h])[:100]})
        if not ok and want is not None:
            _report_mismatch(rep, rid, f, loop.get('_line'), 'per-byte step (FNV-1: multiply by the prime, then xor the byte)', vg, env[h], want)
        # result is the state
        ret = fw.run(post, dict(env0, **{h: vg.sym('h@out')}))
        rep.instance(rid)
        ok = ret == vg.sym('h@out')
        rep.oblige(rid, ok)
        if not ok:
            rep.violation(rid, f, f.line, 'result', '%s: the returned value is not the hash state' % fname)
    except NotStraight as e:
        rep.broken.append('%s cannot be normalised: %s' % (fname, e))


def rule_md5_vg(prog, rep, rid='H5-md5'):
    import math
    rep.rule(rid, 'MD5: initial state and the complete block transform (64 steps: register rotation, message word, shift, sine-derived '
                  'constant, round function by truth table, final additions) equal RFC 1321 as value graphs')
    prog.unit('src/internal/md5/md5c.c')
    finit = prog.need_func('MD5Init')
    ftr = prog.need_func('MD5Transform', 'src/internal/md5/md5c.c')
    want_init = [0x67452301, 0xefcdab89, 0x98badcfe, 0x10325476]
    vg = VG()
    try:
        fw = Forward(prog, finit, vg)
        env = {}
        fw.run(children(finit.body), env)
        pname = finit.params[0].get('name')
        for i, v in enumerate(want_init):
            rep.instance(rid)
            got = env.get('%s->state[%d]' % (pname, i))
            ok = got == vg.const(v, 32) or got == vg.const(v)
            rep.oblige(rid, ok, {'state': i} if i == 0 else None)
            if not ok:
                rep.violation(rid, finit, finit.line, 'state[%d]' % i, 'MD5 initial state[%d] is %s, RFC 1321 requires %s'
                              % (i, vg.show(got) if got is not None else None, hex(v)))
    except NotStraight as e:
        rep.broken.append('MD5Init cannot be normalised: %s' % e)
    vg = VG()
    try:
        fw = Forward(prog, ftr, vg)
        env = {}
        fw.run(children(ftr.body), env)
        sname = ftr.params[0].get('name')
        S = vg.sym(sname)
        st = [vg.load(vg.add(S, vg.const(4 * i), 64), 32) for i in range(4)]      # state words: u_int32_t state[4] (a pointer parameter)
        # the message words: whatever array the transform reads (x[k]) - find its name from the code
        xname = None
        for x in walk(ftr.body):
            if x.get('kind') == 'VarDecl' and qtype(x).endswith('[16]'):
                xname = x.get('name')
        X = [vg.idx(vg.sym(xname), vg.const(k)) for k in range(16)]
        a, b, c, d = st
        C = vg.const

        def rotl(x, s):
            return vg.bor(vg.shl(x, C(s), 32), vg.shr(x, C(32 - s), 32), 32)
        SH = [[7, 12, 17, 22], [5, 9, 14, 20], [4, 11, 16, 23], [6, 10, 15, 21]]
        for i in range(64):
            r = i // 16
            if r == 0:
                fn = vg.bor(vg.band(b, c, 32), vg.band(vg.bnot(b, 32), d, 32), 32)
                k = i
            elif r == 1:
                fn = vg.bor(vg.band(b, d, 32), vg.band(c, vg.bnot(d, 32), 32), 32)
                k = (1 + 5 * i) % 16
            elif r == 2:
                fn = vg.bxor(vg.bxor(b, c, 32), d, 32)
                k = (5 + 3 * i) % 16
            else:
                fn = vg.bxor(c, vg.bor(b, vg.bnot(d, 32), 32), 32)
                k = (7 * i) % 16
            t = int(abs(math.sin(i + 1)) * 4294967296) & 0xFFFFFFFF
            tmp = vg.add(vg.add(vg.add(a, fn, 32), X[k], 32), C(t, 32), 32)
            nb = vg.add(b, rotl(tmp, SH[r][i % 4]), 32)
            a, b, c, d = d, nb, b, c
        want = [vg.add(st[0], a, 32), vg.add(st[1], b, 32), vg.add(st[2], c, 32), vg.add(st[3], d, 32)]
        for i in range(4):
            rep.instance(rid, 16)
            got = env.get('%s[%d]' % (sname, i))
            ok = got is not None and got == want[i]
            for _ in range(16):
                rep.oblige(rid, ok)
            rep.samples.append({'rule': rid, 'verdict': 'holds' if ok else 'VIOLATED', 'output': 'state[%d]' % i,
                                'value_graph_nodes': len(vg.nodes)})
            if not ok:
                if got is None:
                    rep.violation(rid, ftr, ftr.line, 'state[%d]' % i, 'MD5Transform does not update state[%d]' % i)
                else:
                    _report_mismatch(rep, rid, ftr, ftr.line, 'block transform, output word state[%d]' % i, vg, got, want[i])
    except NotStraight as e:
        rep.broken.append('MD5Transform cannot be normalised: %s' % e)


def rule_c18(prog, rep):   # noqa: F811  (supersedes the event-list version above)
    prog.unit(HASH_UNIT)
    rule_h1(prog, rep)
    rule_h2(prog, rep)
    rep.rule('H3-m32', 'MurmurHash3 x86_32: block framing, loop body, and tail+finaliser for each length residue equal the published '
                       'algorithm (value graphs by forward substitution)')
    rule_murmur_vg(prog, rep, 'qhashmurmur3_32', 32, 'H3-m32')
    rep.rule('H3-m128', 'MurmurHash3 x64_128: block framing, loop body, and tail+finaliser for each of the 16 length residues equal the '
                        'published algorithm (value graphs)')
    rule_murmur_vg(prog, rep, 'qhashmurmur3_128', 128, 'H3-m128')
    rep.rule('H4-fnv', 'FNV-1: offset basis, per-byte step h = (h * prime) ^ byte (the shift-add form is normalised to the multiplier), result')
    rule_fnv_vg(prog, rep, 'qhashfnv1_32', 0x811C9DC5, 0x01000193, 32, 'H4-fnv')
    rule_fnv_vg(prog, rep, 'qhashfnv1_64', 0xCBF29CE484222325, 0x100000001B3, 64, 'H4-fnv')
    rule_md5_vg(prog, rep)
    rule_md5_pad(prog, rep)
    rule_md5_file_loop(prog, rep)
    rule_h6(prog, rep)


def rule_md5_pad(prog, rep, rid='H7'):
    """MD5 padding, in the form the implementation has today (two MD5Update calls, the first with a file-scope padding
    table): table = 0x80 followed by zeros; pad length as a function of the buffered byte count idx in 0..63 equals
    ((55 - idx) mod 64) + 1 (constant folding for the 64 values); the bit count is encoded before any update and is what
    the final update appends.  A padding routine in another form gives no instance (not decided), never a violation."""
    from .tables import byte_pred
    from .expr import var_init
    rep.rule(rid, 'MD5 padding (table form): padding table is 0x80,0,...; pad length(idx) = ((55 - idx) mod 64) + 1 for idx = 0..63; '
                  'the bit count is encoded before the padding updates and appended last')
    unit = 'src/internal/md5/md5c.c'
    u = prog.unit(unit)
    for f in sorted(prog.funcs_in(unit), key=lambda x: x.line or 0):
        if f.body is None:
            continue
        ups = [x for x in walk(f.body) if x.get('kind') == 'CallExpr' and prog.callee_name(x) == 'MD5Update']
        tab = None
        for c in ups:
            a = strip(children(c)[2]) if len(children(c)) > 3 else None
            if a is not None and a.get('kind') == 'DeclRefExpr':
                g = u.globals.get((a.get('referencedDecl') or {}).get('name'))
                if g is not None and var_init(g) is not None:
                    tab = (c, g)
                    break
        if tab is None:
            continue
        call, g = tab
        # (a) the table
        vals = []
        init = var_init(g)
        for x in children(init):
            v = int_value(x)
            vals.append(v)
        t = qtype(g)
        import re as _re
        m = _re.search(r'\[(\d+)\]', t)
        size = int(m.group(1)) if m else len(vals)
        full = vals + [0] * (size - len(vals))
        rep.instance(rid, size)
        ok = size >= 64 and full[0] == 0x80 and all(v == 0 for v in full[1:])
        rep.oblige(rid, ok, {'table': g.get('name'), 'size': size, 'first': full[0] if full else None})
        if not ok:
            bad = next((i for i, v in enumerate(full) if v != (0x80 if i == 0 else 0)), None)
            rep.violation(rid, (unit, g.get('name')), g.get('_line'), 'padtable:%s' % g.get('name'),
                          'the MD5 padding table must be 0x80 followed by at least 63 zero bytes (size %d, first deviating entry %s)' % (size, bad))
        # (b) pad length as a function of idx
        lenarg = strip(children(call)[3])
        consts = {}
        idxvar = None
        defs = {}
        for x in walk(f.body):
            if x.get('kind') == 'BinaryOperator' and x.get('opcode') == '=':
                l = strip(children(x)[0])
                if l.get('kind') == 'DeclRefExpr':
                    defs.setdefault((l.get('referencedDecl') or {}).get('name'), []).append(children(x)[1])
            elif x.get('kind') == 'VarDecl' and var_init(x) is not None:
                defs.setdefault(x.get('name'), []).append(var_init(x))
        for nm, ds in defs.items():
            if len(ds) == 1 and '>> 3' in canon(ds[0]).replace('>>3', '>> 3') and '63' in canon(ds[0]).replace('0x3f', '63').replace('0x3F', '63'):
                idxvar = nm
        if idxvar is None:
            raise AnalysisBroken('%s: the buffered-byte index (count >> 3) & 0x3f was not found' % f.name)
        expr = lenarg
        if expr.get('kind') == 'DeclRefExpr':
            nm = (expr.get('referencedDecl') or {}).get('name')
            if len(defs.get(nm, [])) == 1:
                expr = defs[nm][0]
        wrong = []
        for idx in range(64):
            v = byte_pred(prog, f, expr, {idxvar: idx}, {})
            if v is None or isinstance(v, tuple):
                raise AnalysisBroken('%s: pad length %s cannot be folded for idx=%d' % (f.name, canon(expr)[:60], idx))
            want = ((55 - idx) % 64) + 1
            rep.instance(rid)
            if (v & 0xFFFFFFFF) != want:
                wrong.append((idx, v, want))
        rep.oblige(rid, not wrong, {'function': f.name, 'pad_length': canon(expr)[:70], 'idx_values': 64})
        if wrong:
            i, v, w = wrong[0]
            rep.violation(rid, f, call.get('_line'), 'padlen', 'pad length %s is wrong for %d of the 64 buffered-byte counts, e.g. idx=%d gives %d '
                          '(RFC 1321: pad to 56 mod 64, at least one byte: %d)' % (canon(expr)[:60], len(wrong), i, v, w))
        # (c) order: Encode(bits, count, 8) before the first update; the last update appends those 8 bytes
        last = max(ups, key=lambda c: c.get('_line', 0))
        bits = canon(children(last)[2])
        first_up = min(c.get('_line', 0) for c in ups)
        # the call that fills the 8 length bytes (Encode, or memcpy on little-endian builds) from the context's bit count
        enc = [x for x in walk(f.body) if x.get('kind') == 'CallExpr' and prog.callee_name(x) != 'MD5Update'
               and len(children(x)) >= 4 and canon(children(x)[1]) == bits and 'count' in canon(children(x)[2])]
        rep.instance(rid)
        ok = len(ups) >= 2 and bool(enc) and enc[0].get('_line', 0) < first_up and int_value(children(last)[3]) == 8 \
            and int_value(children(enc[0])[3]) == 8 and last is not call
        rep.oblige(rid, ok, {'function': f.name, 'order': 'encode count, pad, append count'})
        if not ok:
            rep.violation(rid, f, f.line, 'padorder', 'the 64-bit bit count must be encoded before the padding is fed to MD5Update (which '
                          'advances the count) and appended as the last 8 bytes')


def rule_md5_file_loop(prog, rep, rid='H8'):
    """qhashmd5_file, read-loop form: each MD5Update that digests the read buffer is given exactly the byte count the read
    returned; that count is used (as a length, and to decrement the remaining count) only where it is known to be >= 0; the
    read never asks for more than the remaining count; the file is positioned at the offset before the loop."""
    from .index import Facts
    rep.rule(rid, 'file digest loop: MD5Update gets the byte count the read returned, that count is used only when >= 0, a read '
                  'never exceeds the remaining count, the file is positioned at the requested offset first')
    f = prog.func('qhashmd5_file')
    if f is None or f.body is None:
        return
    reads = []
    for n in f.cfg.nodes:
        if not isinstance(n.ast, dict) or n.kind == 'macro':
            continue
        for x in walk(n.ast):
            if x.get('kind') == 'BinaryOperator' and x.get('opcode') == '=' and strip(children(x)[1]).get('kind') == 'CallExpr' \
                    and prog.callee_name(strip(children(x)[1])) == 'read':
                call = strip(children(x)[1])
                reads.append((n, canon(children(x)[0]), canon(children(call)[2]), children(call)[3], call))
    if not reads:
        return          # another I/O form (e.g. a mapping): not decided by this rule
    facts = Facts(f)
    resvars = {r[1] for r in reads}
    bufs = {r[2] for r in reads}
    # (c) read size <= remaining count
    for (n, res, buf, size, call) in reads:
        rep.instance(rid)
        sz = canon(strip(size))
        fa = facts.at(n)
        rem = None
        ok = False
        # read(fd, buf, toread)  - the remaining count itself; or read(fd, buf, K) under the must-fact remaining > K / >= K
        for (a, op, b, dom) in fa:
            if b == sz and op in ('>', '>='):
                ok = True
                rem = a
        if not ok:
            # the size is the loop's remaining-count variable: the variable decremented by the read result
            for x in walk(f.body):
                if x.get('kind') == 'CompoundAssignOperator' and x.get('opcode') == '-=' and canon(strip(children(x)[1])) in resvars \
                        and canon(children(x)[0]) == sz:
                    ok = True
        rep.oblige(rid, ok, {'read': canon(call)[:60], 'line': call.get('_line')})
        if not ok:
            rep.violation(rid, f, call.get('_line'), 'readsize:%s' % sz[:20], '%s may ask for more bytes than remain in the requested range'
                          % canon(call)[:60])
    # (a)+(b) uses of the read result
    for n in f.cfg.nodes:
        if not isinstance(n.ast, dict) or n.kind == 'macro':
            continue
        for x in walk(n.ast):
            use = None
            if x.get('kind') == 'CallExpr' and prog.callee_name(x) == 'MD5Update' and len(children(x)) >= 4 and canon(children(x)[2]) in bufs:
                rep.instance(rid)
                ln = canon(strip(children(x)[3]))
                ok = ln in resvars
                rep.oblige(rid, ok, {'update': canon(x)[:60]})
                if not ok:
                    rep.violation(rid, f, x.get('_line'), 'updatelen', '%s digests %s bytes of the read buffer, not the count the read returned'
                                  % (canon(x)[:50], ln))
                use = ln if ok else None
            elif x.get('kind') == 'CompoundAssignOperator' and x.get('opcode') in ('-=', '+=') and canon(strip(children(x)[1])) in resvars:
                use = canon(strip(children(x)[1]))
            if use is None:
                continue
            rep.instance(rid)
            ok = any(a == use and ((op == '>=' and b == '0') or (op == '>' and b in ('0', '-1'))) for (a, op, b, dom) in facts.at(n))
            rep.oblige(rid, ok, {'use': canon(x)[:60], 'line': x.get('_line')})
            if not ok:
                rep.violation(rid, f, x.get('_line'), 'negcount:%s' % use, '%s uses the read result %s on a path on which it is not known to be '
                              '>= 0 (a failed read returns -1): the remaining count grows / a bogus length is digested' % (canon(x)[:50], use))
    # (d) positioned at the offset
    rep.instance(rid)
    ok = any(x.get('kind') == 'CallExpr' and prog.callee_name(x) in ('lseek', 'pread') and any('offset' in canon(a) for a in children(x)[1:])
             for x in walk(f.body))
    rep.oblige(rid, ok, {'seek_to_offset': ok})
    if not ok:
        rep.violation(rid, f, f.line, 'seek', 'the file is never positioned at the requested offset')


def rule_chunk_pointer_advances(prog, rep, rid='H10'):
    """A loop that feeds a message to the digest in chunks must feed a different part each time: the pointer passed to the
    update routine inside a loop depends on something the loop changes (base + offset, a walking pointer), or it is a local
    buffer that the loop refills (handed to a reader as a writable argument).  `update(ctx, data, chunk)` with a loop-invariant
    `data` digests the first chunk over and over."""
    from .looprules import _natural_body, _reads, _writes
    rep.rule(rid, 'inside a loop, the data pointer handed to the digest update depends on the loop\'s progress (or is a buffer refilled in the '
                  'loop)')
    unit = 'src/utilities/qhash.c'
    prog.unit(unit)
    for f in sorted(prog.funcs_in(unit), key=lambda x: x.line or 0):
        if f.body is None:
            continue
        cfg = f.cfg
        for (head, stmt) in cfg.loops:
            if head.id not in cfg.reachable:
                continue
            body = _natural_body(cfg, head, stmt)
            written = set()
            refilled = set()
            for i in body:
                m = cfg.nodes[i]
                nm, _mem, _imp = _writes(prog, m)
                written |= nm
                if isinstance(m.ast, dict) and m.kind != 'macro':
                    for y in walk(m.ast):
                        if y.get('kind') == 'CallExpr' and prog.callee_name(y) in ('read', 'fread', 'pread', 'recv', 'memcpy', 'fgets'):
                            for a in children(y)[1:]:
                                sa = strip(a)
                                if sa.get('kind') == 'DeclRefExpr':
                                    refilled.add(canon(sa))
            for i in body:
                m = cfg.nodes[i]
                if not isinstance(m.ast, dict) or m.kind == 'macro':
                    continue
                for y in walk(m.ast):
                    if y.get('kind') == 'CallExpr' and prog.callee_name(y) == 'MD5Update' and len(children(y)) >= 4:
                        ptr = children(y)[2]
                        rep.instance(rid)
                        names = _reads(ptr)[0]
                        ok = bool(names & written) or bool(names & refilled)
                        rep.oblige(rid, ok, {'function': f.name, 'call': canon(y)[:60]})
                        if not ok:
                            rep.violation(rid, f, y.get('_line'), 'same-chunk',
                                          '%s: the loop at line %s hands %s to the digest in every iteration although nothing in the loop changes '
                                          'it: the same bytes are digested again and again, the rest of the message never' % (f.name, head.line, canon(ptr)[:40]))
