"""Engine H: exact-bytes and algorithm-parameter rules for the hash functions (C18; H2 shared with C11)."""
from .frontend import walk, children, strip, strip_parens, qtype
from .expr import canon, access_path, int_value, root_var
from .dataflow import ReachingDefs, origins

HASH_UNIT = 'src/utilities/qhash.c'


def _data_params(f):
    """(pointer param, count param) pairs of a hash function: `const void *data, size_t nbytes`."""
    ptrs = [p for p in f.params if qtype(p).rstrip().endswith('*')]
    cnts = [p for p in f.params if 'size_t' in qtype(p) or qtype(p) in ('int', 'unsigned int', 'long')]
    return ptrs, cnts


def _derives_from(rd, node_id, e, param_names):
    o = origins(rd, node_id, e)
    return any(t == 'param:%s' % p for t in o for p in param_names)


def rule_h2(prog, rep, rid='H2'):
    """In a counted scan (a cursor into the data advanced in step with a decrement of the remaining
    count) every dereference of the cursor is dominated, inside the loop, by the count test."""
    rep.rule(rid, 'counted scans test the remaining count before dereferencing the cursor (no read past the buffer)')
    u = prog.unit(HASH_UNIT)
    for f in sorted(prog.funcs_in(HASH_UNIT), key=lambda x: x.line or 0):
        ptrs, cnts = _data_params(f)
        if not ptrs or not cnts:
            continue
        cfg = f.cfg
        rd = ReachingDefs(f)
        dom = None
        pnames = [p.get('name') for p in ptrs]
        cnames = [p.get('name') for p in cnts]
        for (head, loop) in cfg.loops:
            # loop body nodes: reachable from head and reaching head
            body = _loop_nodes(cfg, head)
            dec_vars = set()
            adv_vars = set()
            for nid in body:
                n = cfg.nodes[nid]
                if not isinstance(n.ast, dict):
                    continue
                for x in walk(n.ast):
                    k = x.get('kind')
                    if (k == 'UnaryOperator' and x.get('opcode') in ('--', '++')) or k == 'CompoundAssignOperator':
                        t = strip(children(x)[0])
                        p = access_path(t)
                        if not p:
                            continue
                        op = x.get('opcode')
                        if qtype(t).rstrip().endswith('*') and op in ('++', '+='):
                            adv_vars.add(p)
                        elif not qtype(t).rstrip().endswith('*') and op in ('--', '-='):
                            dec_vars.add(p)
            counts = {c for c in dec_vars if c in cnames}
            if not counts or not adv_vars:
                continue
            cursors = set()
            for nid in body:
                n = cfg.nodes[nid]
                if isinstance(n.ast, dict):
                    for x in walk(n.ast):
                        if x.get('kind') == 'DeclRefExpr' and access_path(x) in adv_vars:
                            if _derives_from(rd, nid, x, pnames):
                                cursors.add(access_path(x))
            if not cursors:
                continue
            rep.instance(rid)
            if dom is None:
                dom = cfg.dominators()
            # count tests inside the loop
            tests = []
            for nid in body:
                n = cfg.nodes[nid]
                if n.kind == 'cond' and isinstance(n.ast, dict):
                    s = strip_parens(n.ast)
                    if s.get('kind') == 'BinaryOperator' and s.get('opcode') in ('>', '!=', '>=', '<'):
                        a, b = children(s)
                        pa, pb = access_path(a), access_path(b)
                        if (pa in counts and int_value(b) is not None) or (pb in counts and int_value(a) is not None):
                            tests.append(n)
                    elif access_path(s) in counts:
                        tests.append(n)
            bad = []
            for nid in sorted(body):
                n = cfg.nodes[nid]
                if not isinstance(n.ast, dict):
                    continue
                for x in walk(n.ast):
                    if (x.get('kind') == 'UnaryOperator' and x.get('opcode') == '*') or x.get('kind') == 'ArraySubscriptExpr':
                        b = access_path(children(x)[0])
                        if b in cursors:
                            guarded = any(t.id in dom[nid] and t.id != nid for t in tests)
                            if not guarded:
                                bad.append((n, x))
            rep.oblige(rid, not bad, {'function': f.name, 'loop_line': head.line, 'cursor': sorted(cursors),
                                      'count': sorted(counts), 'count_tests': len(tests)})
            for (n, x) in bad[:1]:
                rep.violation(rid, f, x.get('_line'), 'deref:%s' % canon(x),
                              'the scan dereferences %s before testing the remaining count %s in the same iteration: '
                              'one byte past the buffer is read (and a zero byte may end the scan early)'
                              % (canon(x), sorted(counts)))


def _loop_nodes(cfg, head):
    # nodes that can reach head (backwards) intersected with nodes reachable from head
    fwd = set()
    work = [head]
    while work:
        n = work.pop()
        if n.id in fwd:
            continue
        fwd.add(n.id)
        for (s, _l) in n.succs:
            work.append(s)
    bwd = set()
    work = [head]
    while work:
        n = work.pop()
        if n.id in bwd:
            continue
        bwd.add(n.id)
        for (p, _l) in n.preds:
            work.append(p)
    return (fwd & bwd)
