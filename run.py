#!/usr/bin/env python3
"""qlibc static verification driver.

  run.py check <ID> [--tier quick|thorough] [--root DIR]
  run.py list
  run.py --replay <file>

Exit codes: 0 property held on everything analysed (known findings printed),
1 violation (VIOLATION line), 2 analysis broken.
"""
import argparse
import json
import os
import sys
import traceback

sys.path.insert(0, os.path.dirname(os.path.abspath(__file__)))

from qv import props  # noqa: E402
from qv.frontend import AnalysisBroken  # noqa: E402


def main():
    ap = argparse.ArgumentParser()
    ap.add_argument('cmd', nargs='?')
    ap.add_argument('prop', nargs='?')
    ap.add_argument('--tier', default=os.environ.get('VERIF_TIER') or 'quick')
    ap.add_argument('--root', default=None)
    ap.add_argument('--replay', default=None)
    a = ap.parse_args()
    if a.root:
        os.environ['QV_ROOT'] = os.path.realpath(a.root)
    if a.replay:
        d = json.load(open(a.replay))
        print('replaying %s: %s' % (a.replay, json.dumps(d['finding'], indent=1)))
        return props.run(d['property'], d.get('tier', 'quick'))
    if a.cmd == 'list':
        for p in props.PROPS:
            print(p)
        return 0
    if a.cmd == 'check' and a.prop:
        if a.tier not in ('quick', 'thorough'):
            a.tier = 'quick'
        try:
            return props.run(a.prop, a.tier)
        except AnalysisBroken as e:
            print('ANALYSIS-BROKEN property=%s %s' % (a.prop, e))
            return 2
        except Exception:
            traceback.print_exc()
            print('ANALYSIS-BROKEN property=%s internal error' % a.prop)
            return 2
    ap.print_help()
    return 2


if __name__ == '__main__':
    sys.exit(main())
