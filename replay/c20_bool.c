/* Triage replay (classification only): every documented boolean spelling must be accepted and normalised. */
#include <stdio.h>
#include <stdlib.h>
#include <string.h>
#include "qlibc.h"
#include "qlibcext.h"
static char got[16][8]; static int n;
static char *cb(qaconf_cbdata_t *d, void *u) { if (d->argc > 1 && n < 16) { strncpy(got[n++], d->argv[1], 7); } return NULL; }
int main(void) {
    const char *sp[] = {"On", "Off", "yes", "NO", "True", "false", "1", "0"};
    const char *want[] = {"1", "0", "1", "0", "1", "0", "1", "0"};
    int bad = 0;
    for (int i = 0; i < 8; i++) {
        FILE *fp = fopen("/tmp/qv-replay/c20.conf", "w"); fprintf(fp, "Flag %s\n", sp[i]); fclose(fp);
        qaconf_t *c = qaconf();
        qaconf_option_t opts[] = { {"Flag", QAC_TAKE_BOOL, cb, 0, QAC_SECTION_ALL}, QAC_OPTION_END };
        c->addoptions(c, opts);
        n = 0;
        int r = c->parse(c, "/tmp/qv-replay/c20.conf", 0);
        printf("Flag %-5s -> parse=%d value=%s %s\n", sp[i], r, n ? got[0] : "-", r < 0 ? c->errmsg(c) : "");
        if (r != 1 || n != 1 || strcmp(got[0], want[i])) bad++;
        c->free(c);
    }
    return bad != 0;
}
