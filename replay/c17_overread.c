/* Triage replay (classification only; build with ASan/MSan): malformed inputs in exactly-sized heap buffers. */
#include <stdio.h>
#include <stdlib.h>
#include <string.h>
#include "qlibc.h"
#include "qlibcext.h"
static char *heapstr(const char *s) { size_t n = strlen(s) + 1; char *p = malloc(n); memcpy(p, s, n); return p; }
static char *cb(qaconf_cbdata_t *d, void *u) { return NULL; }
int main(int argc, char **argv) {
    int which = atoi(argv[1]);
    if (which == 0) { char *s = heapstr("ab%"); printf("url %zu\n", qurl_decode(s)); free(s); }
    if (which == 1) { char *s = heapstr("ab%4"); printf("url %zu\n", qurl_decode(s)); free(s); }
    if (which == 2) { char *s = heapstr("616"); printf("hex %zu\n", qhex_decode(s)); free(s); }
    if (which >= 3) {
        const char *doc = which == 3 ? "Opt value\n" : which == 4 ? "Opt 'abc\\\n" : "<Sec>\n";
        FILE *fp = fopen("/tmp/qv-replay/c17.conf", "w"); fputs(doc, fp); fclose(fp);
        qaconf_t *c = qaconf();
        qaconf_option_t opts[] = { {"Opt", QAC_TAKEALL, cb, 0, QAC_SECTION_ALL}, {"Sec", QAC_TAKEALL, cb, 1, QAC_SECTION_ALL}, QAC_OPTION_END };
        c->addoptions(c, opts);
        int r = c->parse(c, "/tmp/qv-replay/c17.conf", 0);
        printf("aconf case %d -> %d %s\n", which, r, r < 0 ? c->errmsg(c) : "");
        c->free(c);
    }
    return 0;
}
