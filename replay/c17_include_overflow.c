/* Triage replay (classification only): qconfig_parse_file() with an "@INCLUDE <path>" whose path is 4087..4095 bytes long
 * and names an existing file.  The path fits buf[PATH_MAX], but the buffer is then reused for "@INCLUDE " + path
 * (9 more bytes).  Build with -fsanitize=address. */
#include <stdio.h>
#include <stdlib.h>
#include <string.h>
#include <limits.h>
#include <unistd.h>
#include <sys/stat.h>
#include "qlibc.h"
#include "qlibcext.h"
int main(void) {
    /* build an absolute path of exactly 4090 bytes: /tmp/qv-replay/d/<200 x>/.../f */
    static char path[PATH_MAX];
    strcpy(path, "/tmp/qv-replay/d");
    mkdir(path, 0700);
    while (strlen(path) + 202 < 4090 - 2) {
        size_t n = strlen(path);
        path[n] = '/'; memset(path + n + 1, 'x', 200); path[n + 201] = 0;
        if (mkdir(path, 0700) != 0 && access(path, F_OK) != 0) { perror("mkdir"); return 2; }
    }
    size_t n = strlen(path);
    path[n] = '/'; memset(path + n + 1, 'f', 4090 - n - 1); path[4090] = 0;
    FILE *fp = fopen(path, "w");
    if (fp == NULL) { perror("fopen long path"); return 2; }
    fputs("included=yes\n", fp); fclose(fp);
    fp = fopen("/tmp/qv-replay/main.conf", "w");
    fprintf(fp, "a=1\n@INCLUDE %s\nb=2\n", path); fclose(fp);
    printf("include path length %zu (PATH_MAX %d)\n", strlen(path), PATH_MAX);
    qlisttbl_t *t = qconfig_parse_file(NULL, "/tmp/qv-replay/main.conf", '=');
    printf("parsed: %s, included=%s\n", t ? "ok" : "NULL", t ? t->getstr(t, "included", false) : "-");
    return 0;
}
