/* Triage replay for C15 reports (classification only): fail the k-th allocation inside one call.
 * Build with -Wl,--wrap=malloc,--wrap=calloc,--wrap=realloc,--wrap=strdup (+ ASan for leaks). */
#include <stdio.h>
#include <stdlib.h>
#include <string.h>
#include <errno.h>
#include "qlibc.h"
static int countdown = -1;
static int hit(void) { if (countdown < 0) return 0; if (countdown == 0) { countdown = -1; errno = ENOMEM; return 1; } countdown--; return 0; }
void *__real_malloc(size_t); void *__real_calloc(size_t, size_t); void *__real_realloc(void *, size_t); char *__real_strdup(const char *);
void *__wrap_malloc(size_t n) { return hit() ? NULL : __real_malloc(n); }
void *__wrap_calloc(size_t a, size_t b) { return hit() ? NULL : __real_calloc(a, b); }
void *__wrap_realloc(void *p, size_t n) { return hit() ? NULL : __real_realloc(p, n); }
char *__wrap_strdup(const char *s) { if (hit()) return NULL; char *d = __real_malloc(strlen(s) + 1); strcpy(d, s); return d; }

int main(int argc, char **argv) {
    int which = atoi(argv[1]);
    int k = argc > 2 ? atoi(argv[2]) : 0;
    int bad = 0;
    if (which == 0) {            /* A1: Q_MUTEX_NEW uses the calloc result unchecked */
        countdown = k;           /* k=1: second allocation = the mutex object */
        qlist_t *l = qlist(QLIST_THREADSAFE);
        printf("qlist(THREADSAFE) with mutex allocation failing -> %p errno=%d\n", (void *)l, errno);
    } else if (which == 1) {     /* A2: put_obj counts the key before new_obj can fail */
        qtreetbl_t *t = qtreetbl(0);
        t->putstr(t, "a", "1");
        countdown = k;
        bool r = t->putstr(t, "b", "2");
        countdown = -1;
        printf("put under ENOMEM -> %d, size=%zu (expected 1)\n", r, t->size(t));
        bad = (!r && t->size(t) != 1);
    } else if (which == 2) {     /* A1: remove_obj stores an unchecked copy of the successor key */
        qtreetbl_t *t = qtreetbl(0);
        t->putstr(t, "b", "1"); t->putstr(t, "a", "1"); t->putstr(t, "c", "1");
        countdown = k;
        bool r = t->remove(t, "b");
        countdown = -1;
        printf("remove under ENOMEM -> %d size=%zu; now looking up a key...\n", r, t->size(t));
        fflush(stdout);
        char *v = t->getstr(t, "c", false);   /* comparator is handed a NULL key -> crash */
        printf("get c -> %s\n", v ? v : "(null)");
        bad = (v == NULL);
    } else if (which == 3) {     /* A1: getnext(newmem) reports success with a NULL key */
        qtreetbl_t *t = qtreetbl(0);
        t->putstr(t, "a", "1");
        qtreetbl_obj_t o; memset(&o, 0, sizeof o);
        countdown = k;
        bool r = t->getnext(t, &o, true);
        countdown = -1;
        printf("getnext(newmem) under ENOMEM -> %d name=%p data=%p\n", r, o.name, o.data);
        bad = (r && o.name == NULL);
    } else if (which == 4) {     /* A1: find_nearest(newmem) */
        qtreetbl_t *t = qtreetbl(0);
        t->putstr(t, "a", "1");
        countdown = k;
        qtreetbl_obj_t o = t->find_nearest(t, "a", 2, true);
        countdown = -1;
        printf("find_nearest(newmem) under ENOMEM -> name=%p data=%p errno=%d\n", o.name, o.data, errno);
        bad = (o.name == NULL && o.next != NULL);
    } else if (which == 5) {     /* A3: getmulti realloc */
        qlisttbl_t *t = qlisttbl(0);
        for (int i = 0; i < 12; i++) t->putstr(t, "k", "v");
        size_t n = 0;
        countdown = k;           /* second realloc (growth 10->20) fails */
        qlisttbl_data_t *d = t->getmulti(t, "k", true, &n);
        countdown = -1;
        printf("getmulti under ENOMEM -> %p n=%zu\n", (void *)d, n);
        if (d) t->freemulti(d);
        t->free(t);              /* LeakSanitizer reports the lost array and copies */
    } else if (which == 6) {     /* M2/A3: qvector() leaks the element buffer when the mutex allocation fails */
        countdown = k;
        qvector_t *v = qvector(16, 8, QVECTOR_THREADSAFE);
        countdown = -1;
        printf("qvector(THREADSAFE) under ENOMEM -> %p\n", (void *)v);
        if (v) v->free(v);
    } else if (which == 7) {     /* A1: qlisttbl_load strdup */
        FILE *fp = fopen("/tmp/qv-replay/load.txt", "w"); fputs("a=1\nb=2\n", fp); fclose(fp);
        qlisttbl_t *t = qlisttbl(0);
        countdown = k;
        ssize_t r = t->load(t, "/tmp/qv-replay/load.txt", '=', true);
        countdown = -1;
        printf("load under ENOMEM -> %zd\n", r);
    }
    printf(bad ? "DEFECT\n" : "ok\n");
    return bad;
}
