/* Triage replay (classification only): an allocation failure inside the walk that feeds getmulti(newmem=true) must make
 * getmulti report failure - not return a shorter result as if the key had fewer entries.
 * Build with -Wl,--wrap=malloc,--wrap=calloc,--wrap=realloc,--wrap=strdup */
#include <stdio.h>
#include <stdlib.h>
#include <string.h>
#include <errno.h>
#include "qlibc.h"
static int countdown = -1;
static int hit(void) { if (countdown < 0) return 0; if (countdown == 0) { countdown = -1; errno = ENOMEM; return 1; } countdown--; return 0; }
void *__real_malloc(size_t); void *__real_calloc(size_t, size_t); void *__real_realloc(void *, size_t); char *__real_strdup(const char *);
void *__wrap_malloc(size_t n) { return hit() ? NULL : __real_malloc(n); }
void *__wrap_calloc(size_t a, size_t b) { return hit() ? NULL : __real_calloc(a, b); }
void *__wrap_realloc(void *p, size_t n) { return hit() ? NULL : __real_realloc(p, n); }
char *__wrap_strdup(const char *s) { if (hit()) return NULL; char *d = __real_malloc(strlen(s) + 1); strcpy(d, s); return d; }
int main(void) {
    qlisttbl_t *t = qlisttbl(0);
    int i, bad = 0;
    for (i = 0; i < 5; i++) t->putstr(t, "k", "value");
    for (int k = 0; k < 14; k++) {
        size_t n = 99;
        countdown = k;
        errno = 0;
        qlisttbl_data_t *objs = t->getmulti(t, "k", true, &n);
        int e = errno;
        countdown = -1;
        if (objs != NULL && n != 5) {
            printf("allocation #%d failing: getmulti returned %zu of 5 entries as a success (errno=%d)\n", k + 1, n, e);
            bad = 1;
        }
        if (objs != NULL) t->freemulti(objs);
    }
    if (!bad) printf("getmulti: complete result or failure for every injected allocation failure\n");
    return bad;
}
