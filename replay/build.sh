#!/bin/sh
# Build a triage replay against the sources of $QV_ROOT (default /repo) into /tmp/qv-replay/replay.
# usage: replay/build.sh <replay.c> [extra cc flags...]
set -e
ROOT=${QV_ROOT:-/repo}
SRC=$1; shift
OUT=/tmp/qv-replay
rm -rf /tmp/qv-replay; mkdir -p $OUT
${CC:-cc} -g -O0 -std=gnu99 -w -I$ROOT/include/qlibc -I$ROOT/src/internal "$@" -o $OUT/replay "$SRC" \
   $ROOT/src/containers/*.c $ROOT/src/utilities/*.c $ROOT/src/internal/*.c $ROOT/src/internal/md5/*.c \
   $ROOT/src/extensions/qconfig.c $ROOT/src/extensions/qaconf.c $ROOT/src/extensions/qlog.c -lpthread
