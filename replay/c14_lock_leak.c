/* Triage replay for C14 reports (classification only, not a check).
 * Build: see replay/build.sh.  Prints the container mutex depth after calls that fail. */
#include <stdio.h>
#include <stdlib.h>
#include <stdbool.h>
#include <string.h>
#include <errno.h>
#include "qlibc.h"
#include "qinternal.h"

static int fail_after = -1; /* -1: never fail */
void *__real_malloc(size_t n);
void *__wrap_malloc(size_t n) {
    if (fail_after == 0) { errno = ENOMEM; return NULL; }
    if (fail_after > 0) fail_after--;
    return __real_malloc(n);
}
static int depth(void *m) { return m ? ((qmutex_t *)m)->count : -99; }

int main(void) {
    int bad = 0;
    qvector_t *v = qvector(4, sizeof(int), QVECTOR_THREADSAFE);
    int x = 7;
    v->addlast(v, &x); v->addlast(v, &x);
    bool r = v->setat(v, 10, &x);
    printf("qvector_setat(out of range)=%d depth=%d\n", r, depth(v->qmutex)); bad += depth(v->qmutex) != 0;
    ((qmutex_t *)v->qmutex)->count = 0; pthread_mutex_unlock(&((qmutex_t *)v->qmutex)->mutex);
    void *p = v->popat(v, 10);
    printf("qvector_popat(out of range)=%p depth=%d\n", p, depth(v->qmutex)); bad += depth(v->qmutex) != 0;
    ((qmutex_t *)v->qmutex)->count = 0; pthread_mutex_unlock(&((qmutex_t *)v->qmutex)->mutex);
    fail_after = 0;
    v->reverse(v);
    fail_after = -1;
    printf("qvector_reverse(ENOMEM) depth=%d\n", depth(v->qmutex)); bad += depth(v->qmutex) != 0;

    qhashtbl_t *t = qhashtbl(0, QHASHTBL_THREADSAFE);
    t->putstr(t, "k", "v");
    fail_after = 0;
    void *d = t->get(t, "k", NULL, true);
    fail_after = -1;
    printf("qhashtbl_get(newmem, ENOMEM)=%p depth=%d\n", d, depth(t->qmutex)); bad += depth(t->qmutex) != 0;
    printf(bad ? "DEFECT: %d call(s) returned with the lock held\n" : "ok: all locks released (%d)\n", bad);
    return bad ? 1 : 0;
}
