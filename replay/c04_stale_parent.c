/* Triage replay for the T5 report (classification only): a stale parent link left by an earlier
 * walk is followed by find_nearest()'s climb after the linked node became the root. */
#include <stdio.h>
#include <stdlib.h>
#include <string.h>
#include <errno.h>
#include "qlibc.h"
int main(void) {
    qtreetbl_t *t = qtreetbl(0);
    t->putstr(t, "2", "v"); t->putstr(t, "7", "v");
    qtreetbl_obj_t o; memset(&o, 0, sizeof o);
    while (t->getnext(t, &o, false)) ;            /* full walk: leaves 2->next = 7 */
    t->remove(t, "7");                            /* 2 becomes the root, its parent link still set */
    qtreetbl_obj_t r = t->find_nearest(t, "0", 2, false);   /* probe below the minimum: climbs from 2 */
    printf("find_nearest(\"0\") -> %s\n", r.name ? (char *)r.name : "(none)");
    return !(r.name && strcmp(r.name, "2") == 0);
}
