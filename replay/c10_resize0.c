/* Triage replay (classification only): a vector resized to zero must stay usable. */
#include <stdio.h>
#include <stdlib.h>
#include <string.h>
#include "qlibc.h"
int main(void) {
    qvector_t *v = qvector(4, sizeof(int), QVECTOR_RESIZE_DOUBLE);
    int x = 41; v->addlast(v, &x);
    v->resize(v, 0);
    x = 42;
    bool r = v->addlast(v, &x);
    int *p = v->getlast(v, true);
    printf("after resize(0): addlast=%d size=%zu getlast=%d\n", r, v->size(v), p ? *p : -1);
    return !(r && p && *p == 42);
}
