/* Triage replay (classification only): qconfig_parse_str() on three mutually referential lines.
 *   b=${a}      a is not defined yet: the reference stays in b's value literally
 *   a=${b}      expands to "${a}", a still undefined: a's value is the text "${a}"
 *   c=${a}      "${a}" is replaced by "${a}" for ever (the expansion loop of _parsestr re-scans the replaced text)
 * The second document doubles the text with every replacement ("${a}${a}").
 * On the pinned tree the first parse never returns (the alarm fires, exit by SIGALRM); with the repair both return. */
#include <stdio.h>
#include <stdlib.h>
#include <string.h>
#include <unistd.h>
#include "qlibc.h"
#include "qlibcext.h"
int main(void) {
    alarm(20);
    qlisttbl_t *t = qconfig_parse_str(NULL, "b=${a}\na=${b}\nc=${a}\n", '=');
    printf("parse 1 returned: %s, c=%s\n", t ? "table" : "NULL", t ? t->getstr(t, "c", false) : "-");
    qlisttbl_t *u = qconfig_parse_str(NULL, "b=${a}${a}\na=${b}\nc=${a}\n", '=');
    const char *c = u ? u->getstr(u, "c", false) : NULL;
    printf("parse 2 returned: %s, strlen(c)=%zu\n", u ? "table" : "NULL", c ? strlen(c) : (size_t) 0);
    return 0;
}
