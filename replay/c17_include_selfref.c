/* Triage replay (classification only): qconfig_parse_file() on a file that includes itself.  Every pass replaces the
 * directive by the file's text, which contains the directive again: on the pinned tree the include loop never ends
 * (and the document grows without bound when the file has other lines); with the repair the parse fails with NULL. */
#include <stdio.h>
#include <stdlib.h>
#include <string.h>
#include <unistd.h>
#include <sys/stat.h>
#include "qlibc.h"
#include "qlibcext.h"
int main(void) {
    alarm(20);
    mkdir("/tmp/qv-replay", 0700);
    FILE *fp = fopen("/tmp/qv-replay/self.conf", "w");
    fputs("a=1\n@INCLUDE self.conf\nb=2\n", fp);
    fclose(fp);
    qlisttbl_t *t = qconfig_parse_file(NULL, "/tmp/qv-replay/self.conf", '=');
    printf("parse returned: %s\n", t ? "table" : "NULL");
    return 0;
}
