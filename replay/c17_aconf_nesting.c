/* Triage replay (classification only): qaconf parse() of a file with 5000 nested, never closed sections.  _parse_inline()
 * calls itself once per opened section and every level keeps a 4 KiB line buffer on the stack: on the pinned tree the
 * process dies with SIGSEGV (stack exhausted, 8 MiB default stack); with the repair the parse fails with an error message. */
#include <stdio.h>
#include <stdlib.h>
#include <string.h>
#include <unistd.h>
#include <sys/stat.h>
#include "qlibc.h"
#include "qlibcext.h"
int main(void) {
    mkdir("/tmp/qv-replay", 0700);
    FILE *fp = fopen("/tmp/qv-replay/nested.conf", "w");
    for (int i = 0; i < 5000; i++) fputs("<s>\n", fp);
    fclose(fp);
    qaconf_t *conf = qaconf();
    int n = conf->parse(conf, "/tmp/qv-replay/nested.conf", QAC_IGNOREUNKNOWN);
    printf("parse returned %d: %s\n", n, conf->errmsg(conf) ? conf->errmsg(conf) : "(no message)");
    conf->free(conf);
    return 0;
}
