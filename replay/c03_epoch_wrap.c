/* Triage replay (classification only): the traversal id of the tree table is 8 bits wide.  New objects carry the stamp 0;
 * after 255 complete walks the 256th walk gets the id 0 again, so a key inserted just before it looks visited and is never
 * returned.  On the pinned tree the last walk returns 3 of 4 keys; with the repair it returns all 4. */
#include <stdio.h>
#include <stdlib.h>
#include <string.h>
#include "qlibc.h"
static int walk(qtreetbl_t *t) {
    qtreetbl_obj_t obj;
    memset(&obj, 0, sizeof(obj));
    int n = 0;
    while (t->getnext(t, &obj, false)) n++;
    return n;
}
int main(void) {
    qtreetbl_t *t = qtreetbl(0);
    t->putstr(t, "a", "1"); t->putstr(t, "c", "3"); t->putstr(t, "e", "5");
    int bad = 0;
    for (int round = 0; round < 3; round++) {
        for (int i = 0; i < 255; i++) if (walk(t) != (int) t->size(t)) bad++;
        char key[8]; snprintf(key, sizeof(key), "b%d", round);
        t->putstr(t, key, "new");
        int n = walk(t);
        printf("round %d: walk after the insertion returned %d of %zu keys\n", round, n, t->size(t));
        if (n != (int) t->size(t)) bad++;
    }
    printf("%s\n", bad ? "VIOLATED" : "holds");
    return bad ? 1 : 0;
}
