/* Triage replay (classification only): load() must report how many entries were loaded. */
#include <stdio.h>
#include <stdlib.h>
#include "qlibc.h"
int main(void) {
    qlisttbl_t *t = qlisttbl(0);
    t->putstr(t, "a", "1"); t->putstr(t, "b", "2 3"); t->putstr(t, "c", "x=y");
    t->save(t, "/tmp/qv-replay/c08.txt", '=', true);
    qlisttbl_t *u = qlisttbl(0);
    ssize_t n = u->load(u, "/tmp/qv-replay/c08.txt", '=', true);
    printf("saved 3 entries; load() returned %zd, table now has %zu entries\n", n, u->size(u));
    return n != 3;
}
