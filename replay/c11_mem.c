/* Triage replay for C11 reports (classification only): build with clang -fsanitize=address. */
#include <stdio.h>
#include <stdlib.h>
#include <string.h>
#include "qlibc.h"
int main(int argc, char **argv) {
    int which = argc > 1 ? atoi(argv[1]) : 0;
    if (which == 0) {           /* M1: remove_at shifts the tail with memcpy on overlapping ranges */
        qvector_t *v = qvector(8, 8, 0);
        long x; for (x = 0; x < 8; x++) v->addlast(v, &x);
        v->removefirst(v);
        v->free(v);
    } else if (which == 1) {    /* M2: removing an inner tree node leaks the successor node */
        qtreetbl_t *t = qtreetbl(0);
        t->putstr(t, "b", "1"); t->putstr(t, "a", "1"); t->putstr(t, "c", "1");
        t->remove(t, "b");
        t->free(t);
    } else if (which == 2) {    /* H2: fnv reads one byte past an exactly-sized buffer without NUL */
        char *p = malloc(4); memcpy(p, "abcd", 4);
        printf("%u\n", qhashfnv1_32(p, 4));
        free(p);
    } else if (which == 3) {
        char *p = malloc(4); memcpy(p, "abcd", 4);
        printf("%llu\n", (unsigned long long)qhashfnv1_64(p, 4));
        free(p);
    }
    return 0;
}
