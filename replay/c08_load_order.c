/* Triage replay (classification only): save + load must reproduce the entry order, also for an INSERTTOP table
 * (the documentation of load() says it always appends at the bottom to preserve the order). */
#include <stdio.h>
#include <stdlib.h>
#include <string.h>
#include "qlibc.h"
static void order(qlisttbl_t *t, char *out) {
    qlisttbl_obj_t *o; out[0] = 0;
    for (o = t->first; o; o = o->next) strcat(out, o->name);
}
int main(void) {
    qlisttbl_t *t = qlisttbl(QLISTTBL_INSERTTOP);
    t->putstr(t, "a", "1"); t->putstr(t, "b", "2"); t->putstr(t, "c", "3");
    t->save(t, "/tmp/qv-replay/c08o.txt", '=', true);
    qlisttbl_t *u = qlisttbl(QLISTTBL_INSERTTOP);
    u->load(u, "/tmp/qv-replay/c08o.txt", '=', true);
    char a[16], b[16]; order(t, a); order(u, b);
    printf("saved order (top to bottom): %s ; loaded order: %s\n", a, b);
    return strcmp(a, b) != 0;
}
