/* Triage replay (classification only): re-putting an existing key with an empty value must replace the value. */
#include <stdio.h>
#include <string.h>
#include "qlibc.h"
int main(void) {
    qtreetbl_t *t = qtreetbl(0);
    t->putobj(t, "k", 2, "value", 6);
    bool r = t->putobj(t, "k", 2, "", 0);
    size_t n = 99; void *p = t->getobj(t, "k", 2, &n, false);
    printf("re-put with empty value -> %d; get: data=%p size=%zu (expected size 0)\n", r, p, n);
    return n != 0;
}
