/* Triage replay for C13 reports (classification only): run under ThreadSanitizer.
 * One thread mutates a thread-safe container while another calls the reported operation. */
#include <stdio.h>
#include <stdlib.h>
#include <string.h>
#include <pthread.h>
#include "qlibc.h"

static qvector_t *v; static qlist_t *l; static int stop; static int which;
static int erange;
static void *mut(void *a) {
    int x = 1;
    for (int i = 0; i < 20000 && !__atomic_load_n(&stop, __ATOMIC_SEQ_CST); i++) {
        if (which <= 2) { v->addfirst(v, &x); free(v->popfirst(v)); }
        else { l->addlast(l, &x, sizeof x); free(l->popfirst(l, NULL)); }
    }
    return NULL;
}
static void *op(void *a) {
    int x = 2; size_t n;
    for (int i = 0; i < 20000; i++) {
        switch (which) {
        case 0: if (!v->addlast(v, &x)) erange++; break;          /* sequentially addlast can never fail with ERANGE */
        case 1: v->addat(v, -1, &x); break;
        case 2: free(v->toarray(v, &n)); break;
        case 3: free(l->toarray(l, &n)); break;
        case 4: free(l->tostring(l)); break;
        }
    }
    __atomic_store_n(&stop, 1, __ATOMIC_SEQ_CST);
    return NULL;
}
int main(int argc, char **argv) {
    which = argc > 1 ? atoi(argv[1]) : 0;
    v = qvector(1000000, sizeof(int), QVECTOR_THREADSAFE);
    l = qlist(QLIST_THREADSAFE);
    int x = 0; v->addlast(v, &x); v->addlast(v, &x); l->addlast(l, "a", 2);
    pthread_t a, b;
    pthread_create(&a, NULL, mut, NULL); pthread_create(&b, NULL, op, NULL);
    pthread_join(a, NULL); pthread_join(b, NULL);
    printf("case %d done, addlast ERANGE failures=%d\n", which, erange);
    return erange ? 1 : 0;
}
