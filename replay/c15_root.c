/* Triage replay (classification only): failed put on a tree whose root is a 4-node (default LLRB234 build). */
#include <stdio.h>
#include <stdlib.h>
#include <string.h>
#include <errno.h>
#include "qlibc.h"
static int countdown = -1;
static int hit(void) { if (countdown < 0) return 0; if (countdown == 0) { countdown = -1; errno = ENOMEM; return 1; } countdown--; return 0; }
void *__real_malloc(size_t); void *__real_calloc(size_t, size_t);
void *__wrap_malloc(size_t n) { return hit() ? NULL : __real_malloc(n); }
void *__wrap_calloc(size_t a, size_t b) { return hit() ? NULL : __real_calloc(a, b); }
int main(int argc, char **argv) {
    int which = argc > 1 ? atoi(argv[1]) : 0;
    qtreetbl_t *t = qtreetbl(0);
    t->putstr(t, "a", "1"); t->putstr(t, "b", "1"); t->putstr(t, "c", "1");
    printf("before: check=%d root red=%d\n", qtreetbl_check(t), t->root->red);
    if (which == 0) {
        countdown = 0;                       /* node allocation fails */
        bool r = t->putstr(t, "d", "1");
        countdown = -1;
        int chk = qtreetbl_check(t);
        printf("put(d) under ENOMEM -> %d; check=%d root red=%d size=%zu\n", r, chk, t->root->red, t->size(t));
        return chk != 0;
    } else {
        countdown = 2;                       /* value copy (3rd allocation of new_obj) fails */
        bool r = t->putstr(t, "d", "value");
        countdown = -1;
        char *v = t->getstr(t, "d", false);
        printf("put(d) with value copy failing -> %d; size=%zu get(d)=%s\n", r, t->size(t), v ? v : "(null)");
        size_t sz = 0; void *p = t->get(t, "d", &sz, false);
        printf("key d present=%d datasize=%zu data=%p\n", errno != ENOENT, sz, p);
        return (!r && t->size(t) != 3);
    }
}
